"""C02 - gradients through xitorch.linalg.solve equal the derivatives of the exact solution map
(reference-model monitor: dense per-column torch.linalg.solve built from the same leaf tensors, compared through
random cotangent contractions, first order with and without a recorded backward, second order; a spy on the
solver entry points records which method ran in which phase with which options)."""
import collections
import random
import sys

import torch

from vf.common import Obs, sub_seed, WarnLog, HarnessBug
from vf import gen

LEVEL = "exploration"
TECHNIQUE = ("runtime reference-model monitor: autograd gradients (first order with/without create_graph, second order) of random "
             "contractions of solve() vs the same contractions of a dense per-column torch.linalg.solve built from the same leaves; "
             "call-history spy on the solver entry points (method and options of every forward/backward solve)")
LEVEL_TEXT = ("Held on every generated system of the run: 27 operator parametrisations (leaf and derived tensors, derivation outside or inside "
              "the products, matrix-free with any subset of products, Hermitian-flagged, low-rank, composed +,-,*,@,.H, one leaf under two "
              "names, a leaf shared by A and M, parameters in a list, Jacobian operator) x 7 forward methods x 9 backward settings x "
              "{no E, E, E+M, M without E} x 12 broadcast patterns x {float64, complex128 with complex E, real-dtype E and complex "
              "Hermitian M}; the gradient of every input (B, E, leaves of A and M, unused and frozen parameters) is compared at first "
              "order (backward not recorded and recorded) and second order, and every backward solve must run the method and options "
              "given in bck_options. Bounds: n<=8 (quick) / 16 (thorough), cond(A - e M) <= 40.")
LEVEL_NOTE = ("Trusts torch.linalg.solve and torch autograd (double backward) on the dense reference; tolerances are "
              "300 * (loosest solver tolerance that actually ran, read from the solver spy) * cond^order with floors 2e-8 / 2e-7 "
              "(>= 200x the largest error seen on the unchanged tree); a forward or backward solve that emitted a ConvergenceWarning "
              "is not compared (gmres is therefore mostly exercised on operators with <= 3 distinct eigenvalues).")
RULE = ("group 'sys': seeded sampling; forward method x backward setting cycle systematically over {cg, bicgstab, custom_exactsolve, "
        "broyden1, gmres, default} x {default, exactsolve, custom_exactsolve, cg, bicgstab, gmres, broyden1 (all tight), recording "
        "callable, cg with default tolerance} plus plain exactsolve; operator kind of A (27) and of M (7), emode {none, E, EM, M without E}, "
        "batch pattern of (A,B,E,M) out of 12, dtype, spectrum {spd, indefinite Hermitian, non-Hermitian}, n, ncols in 1..3, forward "
        "tolerance {tight, default}, special {zero B, zero cotangent column, unused parameter listed in _getparamnames, an input of A/M or "
        "B/E not requiring grad, real-dtype E in a complex system} are drawn per case; group 'gmres': gmres as forward and/or backward "
        "method on diag(c)+UU^H operators (gmres terminates); group 'spy': a recording callable as backward method for every forward "
        "method x emode. non-trivial = n >= 2, non-zero cotangent, no ConvergenceWarning in the forward and first-order backward passes, "
        "first-order gradients (not recorded and recorded) compared for every input, and a non-zero reference gradient for at least one "
        "leaf of A (or the zero-B shortcut case)")
RULE += ("; group 'estruct': special structure in E with E itself differentiated - all columns bitwise equal (per batch entry / everywhere: "
         "torch.full, exactly zero, c * ones), two of >= 3 columns equal, columns equal in some batch entries only, batch entries sharing one row, "
         "stride-0 views of a smaller leaf (scalar.expand, (*,1).expand over columns, (ncols,).expand over batch), scalar leaf * ones - and "
         "duplicated columns in B (also without E), walked systematically over 7 forward methods (incl. plain exactsolve) x 9 backward settings x 13 structures "
         "from a seed-dependent offset, E / E+M, all operator kinds, first and second order")
RULE += ("; sys cases rotate loss / input variants {linear loss, loss quadratic in X, inputs chained through autograd history, both}; group reassign (vf/c02_extra.py): histories on one operator object - tensors re-assigned between chained solves and one backward, a failing call (operator product raising at a seeded index) followed by an in-place update and reuse, change of the alias structure of the operator's tensors, operators without tensor parameters")
MIN_NONTRIVIAL = {"quick": 800, "thorough": 8000}
ASSUMPTIONS = [
    "cond(A - e_c M) <= 40 for every column and batch element (E is re-drawn / shrunk otherwise); M is Hermitian positive definite with cond <= 5",
    "Hermitian-flagged matrix-free operators (A or M) and every M are parametrised through a symmetrising map of their leaves, so that every "
    "perturbation of a leaf keeps the operator Hermitian (the flag is a promise about the whole parametrisation); the one exception is the "
    "class 'dense_autoherm': an unconstrained leaf with a Hermitian value behind LinearOperator.m (auto-detected or flagged), compared with "
    "the unconstrained derivative of W -> W^-1 B",
    "iterative forward/backward solvers run with rtol=1e-10, atol=1e-12 (max_niter raised to 10n+20) except in the 'default tolerance' "
    "classes (forward tolerance 'default', backward settings 'default' and 'cg_default': rtol 1e-6, cond <= 12) whose comparison tolerance is scaled accordingly",
    "comparison: |g - g_ref| <= tol * (|g_ref| + 0.02 * max_leaf |g_ref|) per leaf, tol = max(2e-8, 300 * t * cond) first order, "
    "max(2e-7, 300 * t * cond^2) second order, t = loosest tolerance among the solver calls the spy recorded (0 for direct solves)",
    "broyden1 only for n <= 5, <= 2 columns and batch size <= 3 (cost); jac operator only real, unbatched",
    "group 'estruct': 2 <= ncols <= 4; the structured E obeys the same cond bound (re-drawn / shrunk, exact zero as last resort); a structure that "
    "needs a batch of shifts degrades to 'alleq' when E ends up unbatched",
    "right-hand sides of norm O(1) (plus the exact-zero B shortcut); tiny-norm B (early return of the iterative solvers) is not generated",
]
BUDGET = {"quick": {"worker_timeout": 900, "case_timeout": 150}, "thorough": {"worker_timeout": 3300, "case_timeout": 300}}
SHARDS_PER_JOB = 2
REQUIRED_COUNTERS = {
    "quick": {"chained_input_cases": 150, "nonlinear_loss_cases": 150, "reassign_compared_second": 50, "abort_reuse_compared": 20, "alias_change_compared": 20, "noparam_compared": 20, "compared_first_nograph": 800, "compared_first_graph": 800, "compared_second": 780,
              "backward_solver_calls": 1500, "bck_method_checked": 450, "spy_backward_calls": 200, "fwd_cg": 100,
              "fwd_bicgstab": 100, "fwd_gmres": 80, "fwd_broyden1": 70, "fwd_custom_exactsolve": 70, "fwd_exactsolve": 50,
              "bckran_cg": 400, "bckran_bicgstab": 250, "bckran_gmres": 200, "bckran_broyden1_solve": 130,
              "bckran_exactsolve": 220, "bckran_custom_exactsolve": 170, "emode_EM": 250, "emode_E": 120, "emode_none": 60,
              "emode_MnoE": 80, "complex_E_cases": 100, "unused_param_checked": 300, "reduced_B": 250, "reduced_E": 170,
              "zero_rhs_cases": 20, "normal_equation_backward": 60, "frozen_input_cases": 40, "real_E_in_complex_system": 5,
              "akind_dense_autoherm": 12, "akind_jac": 10, "akind_add_shared": 10, "akind_adj_mv": 10, "akind_mv_inside": 15,
              "mkind_shared": 80,
              "estruct_compared_first": 250, "estruct_compared_second": 240, "estruct_coleq_dense_forward": 15, "estruct_coleq_dense_backward_second": 10, "estruct_coleq_iterative_forward": 30, "estruct_coleq_iterative_backward_second": 20, "estruct_withM": 60, "estruct_noM": 60, "estruct_view_of_smaller_leaf": 50, "estruct_E_exactly_zero": 10, "bstruct_dupcols": 60, "bstruct_coleq_dense_forward": 10, "bstruct_coleq_iterative_forward": 20, "estruct_noE": 8, "estruct_alleq": 8, "estruct_full": 8, "estruct_zeros": 8, "estruct_ones_mult": 8, "estruct_someeq": 8, "estruct_alleq_partbatch": 8, "estruct_batchshared": 8, "estruct_none": 8, "estruct_expview": 8, "estruct_expview_cols": 8, "estruct_expview_batch": 8, "estruct_derived_full": 8},
    "thorough": {"chained_input_cases": 1500, "nonlinear_loss_cases": 1500, "reassign_compared_second": 500, "abort_reuse_compared": 200, "alias_change_compared": 200, "noparam_compared": 200, "compared_first_nograph": 6400, "compared_first_graph": 6400, "compared_second": 6240,
                 "backward_solver_calls": 12000, "bck_method_checked": 3600, "spy_backward_calls": 1600, "fwd_cg": 800,
                 "fwd_bicgstab": 800, "fwd_gmres": 640, "fwd_broyden1": 560, "fwd_custom_exactsolve": 560,
                 "fwd_exactsolve": 400, "bckran_cg": 3200, "bckran_bicgstab": 2000, "bckran_gmres": 1600,
                 "bckran_broyden1_solve": 1040, "bckran_exactsolve": 1760, "bckran_custom_exactsolve": 1360, "emode_EM": 2000,
                 "emode_E": 960, "emode_none": 480, "emode_MnoE": 640, "complex_E_cases": 800, "unused_param_checked": 2400,
                 "reduced_B": 2000, "reduced_E": 1360, "zero_rhs_cases": 160, "normal_equation_backward": 480,
                 "frozen_input_cases": 320, "real_E_in_complex_system": 40, "akind_dense_autoherm": 96, "akind_jac": 80,
                 "akind_add_shared": 80, "akind_adj_mv": 80, "akind_mv_inside": 120, "mkind_shared": 640,
                 "estruct_compared_first": 2000, "estruct_compared_second": 1920, "estruct_coleq_dense_forward": 120, "estruct_coleq_dense_backward_second": 80, "estruct_coleq_iterative_forward": 240, "estruct_coleq_iterative_backward_second": 160, "estruct_withM": 480, "estruct_noM": 480, "estruct_view_of_smaller_leaf": 400, "estruct_E_exactly_zero": 80, "bstruct_dupcols": 480, "bstruct_coleq_dense_forward": 80, "bstruct_coleq_iterative_forward": 160, "estruct_noE": 64, "estruct_alleq": 64, "estruct_full": 64, "estruct_zeros": 64, "estruct_ones_mult": 64, "estruct_someeq": 64, "estruct_alleq_partbatch": 64, "estruct_batchshared": 64, "estruct_none": 64, "estruct_expview": 64, "estruct_expview_cols": 64, "estruct_expview_batch": 64, "estruct_derived_full": 64},
}

KMAX = 40.0
AKINDS_ANY = ["dense", "mv_scaled", "mv_inside", "mv_rmv_prod", "all_shift", "mm_list", "add", "sub", "mul", "matmul", "adj",
              "adj_mv", "nested", "lowrank", "lowrank_rmv", "lowrank_const", "jac"]
AKINDS_HERM = ["dense_sym", "herm_mv", "herm_inside", "add_shared", "add_herm", "lowrank_herm", "lowrank_const_herm", "mul_herm",
               "adj_herm", "dense_autoherm"]
AKINDS = AKINDS_ANY + AKINDS_HERM
MKINDS = ["dense_sym", "herm_mv", "herm_all", "herm_inside", "lowrank_herm", "mul_herm", "shared"]
FWD_CYCLE = ["cg", "bicgstab", "custom_exactsolve", "broyden1", "gmres", None]
BCK_CYCLE = ["default", "exactsolve", "custom_exactsolve", "cg", "bicgstab", "gmres", "broyden1", "spy", "cg_default"]
GMRES_A = ["lowrank_const", "lowrank_const_herm"]
# structure of E (group 'estruct').  The tensor handed to solve is the differentiated leaf itself except in the last four classes, where it is a
# stride-0 view of / a product with a smaller leaf:
#   alleq            columns equal within every batch entry (entries differ)          full       one value everywhere (torch.full)
#   zeros            exactly zero                                                     ones_mult  c * ones, c a short binary fraction
#   someeq           two of >= 3 columns equal                                        alleq_partbatch  columns equal in some batch entries only
#   batchshared      every batch entry holds the same row of distinct shifts          none       random E (the special values are in B)
#   expview          scalar leaf .expand(*BE, ncols)                                  expview_cols  leaf (*BE, 1) .expand over the columns
#   expview_batch    leaf (ncols,) .expand over the batch axes                        derived_full  scalar leaf * ones(*BE, ncols)
#   noE              no E at all, duplicated columns in B
ESTRUCTS = ["alleq", "full", "zeros", "ones_mult", "someeq", "alleq_partbatch", "batchshared", "none", "expview", "expview_cols",
            "expview_batch", "derived_full", "noE"]
ESTRUCT_NEEDS_BATCH = ("alleq_partbatch", "batchshared", "expview_batch")
ESTRUCT_VIEW = ("expview", "expview_cols", "expview_batch", "derived_full")


# ------------------------------------------------------------------------------------------------------- case list
def cases(seed, tier):
    out = []
    N = 1150 if tier == "quick" else 13000
    sizes = [2, 3, 5, 6, 8] if tier == "quick" else [1, 2, 3, 5, 6, 8, 11, 16]
    combos = [(f, b) for b in BCK_CYCLE for f in FWD_CYCLE]
    for i in range(N):
        rng = random.Random(sub_seed(seed, "c02", i))
        d = {"group": "sys", "seed": sub_seed(seed, "c02s", i)}
        if i % 13 == 12:
            d["fwd"], d["bck"] = "exactsolve", "default"
        else:
            d["fwd"], d["bck"] = combos[(i - i // 13) % len(combos)]
        d["akind"] = rng.choice(AKINDS)
        d["mkind"] = rng.choice(MKINDS)
        d["emode"] = rng.choice(["none", "E", "E", "EM", "EM", "EM", "EM", "MnoE"] if i % 9 else ["MnoE"])
        d["batch"] = rng.randrange(len(gen.BATCH_TUPLES_4))
        d["dtype"] = rng.choice(["float64", "complex128"])
        d["spectrum"] = rng.choice(["spd", "indef", "nonherm", "nonherm"])
        d["n"] = rng.choice(sizes)
        d["ncols"] = rng.choice([1, 2, 3])
        d["tol"] = rng.choice(["tight", "tight", "tight", "default"])
        d["special"] = rng.choice([None] * 10 + ["zeroB", "zerocol_cot", "unusedA", "frozenA", "frozenBE", "realE"])
        d["kappa"] = rng.choice([3.0, 10.0, 30.0])
        # loss linear in X (constant cotangent) / nonlinear in X (the cotangent depends on the leaves: second order then goes through the
        # backward solve's dependence on grad_x) / inputs that depend on one another through autograd history / both
        d["variant"] = [None, None, None, "nlloss", "chained", "nlloss_chained"][i % 6]
        _constrain(d, rng)
        out.append(d)
    # directed: gmres as forward and/or backward method on operators where it terminates (<= 3 distinct eigenvalues)
    k = 0
    ng = 72 if tier == "quick" else 720
    for j in range(ng):
        rng = random.Random(sub_seed(seed, "c02g", j))
        fwd, bck = [("gmres", "gmres"), ("gmres", "exactsolve"), ("cg", "gmres"), ("gmres", "default"), ("bicgstab", "gmres"),
                    ("gmres", "bicgstab")][j % 6]
        d = {"group": "gmres", "seed": sub_seed(seed, "c02gs", j), "fwd": fwd, "bck": bck, "akind": rng.choice(GMRES_A),
             "mkind": "shared", "emode": ["none", "E", "EM"][(j // 6) % 3], "batch": rng.randrange(len(gen.BATCH_TUPLES_4)),
             "dtype": rng.choice(["float64", "complex128"]), "spectrum": "spd", "n": rng.choice([5, 6, 8]),
             "ncols": rng.choice([1, 2, 3]), "tol": "tight", "special": None, "kappa": 3.0}
        _constrain(d, rng)
        out.append(d)
        k += 1
    # directed: recording callable as backward method for every forward method / emode (are the backward options honoured?)
    j = 0
    for rep in range(3 if tier == "quick" else 24):
        for fwd in ["cg", "bicgstab", "custom_exactsolve", "broyden1", None]:
            for emode in ["none", "E", "EM"]:
                rng = random.Random(sub_seed(seed, "c02p", j))
                d = {"group": "spy", "seed": sub_seed(seed, "c02ps", j), "fwd": fwd, "bck": "spy", "akind": rng.choice(AKINDS),
                     "mkind": rng.choice(MKINDS), "emode": emode, "batch": rng.randrange(len(gen.BATCH_TUPLES_4)),
                     "dtype": rng.choice(["float64", "complex128"]), "spectrum": rng.choice(["spd", "indef", "nonherm"]),
                     "n": rng.choice([3, 6, 7]), "ncols": rng.choice([1, 2]), "tol": "tight", "special": None, "kappa": 10.0}
                _constrain(d, rng)
                out.append(d)
                j += 1
    # directed: SPECIAL STRUCTURE in the values / memory layout of E (and of B) with E itself differentiated: all columns bitwise equal, exactly
    # zero, a multiple of ones, some columns equal, batch entries sharing one row, stride-0 views of a smaller leaf ... x every forward method
    # (incl. plain exactsolve) x every backward setting x {E, E+M}; the (forward, backward, structure) triples are walked systematically from a
    # seed-dependent offset
    ne = 340 if tier == "quick" else 3400
    ecombos = [(f, b) for b in BCK_CYCLE for f in FWD_CYCLE + ["exactsolve"]]
    off = sub_seed(seed, "c02e_off") % (len(ecombos) * len(ESTRUCTS))
    for j in range(ne):
        rng = random.Random(sub_seed(seed, "c02e", j))
        k = j + off
        fwd, bck = ecombos[k % len(ecombos)]
        es = ESTRUCTS[(k // len(ecombos) + k % len(ecombos)) % len(ESTRUCTS)]
        d = {"group": "estruct", "seed": sub_seed(seed, "c02es", j), "fwd": fwd, "bck": bck, "akind": rng.choice(AKINDS),
             "mkind": rng.choice(MKINDS), "emode": rng.choice(["E", "EM"]), "batch": rng.randrange(len(gen.BATCH_TUPLES_4)),
             "dtype": rng.choice(["float64", "float64", "complex128"]), "spectrum": rng.choice(["spd", "indef", "nonherm", "nonherm"]),
             "n": rng.choice(sizes), "ncols": rng.choice([2, 2, 3, 3, 4]), "tol": rng.choice(["tight", "tight", "tight", "default"]),
             "special": rng.choice([None] * 8 + ["zerocol_cot", "realE"]), "kappa": rng.choice([3.0, 10.0, 30.0]),
             "variant": [None, None, "nlloss", None, "chained", "nlloss_chained"][j % 6], "estruct": es,
             "bstruct": rng.choice([None, None, None, "dupcols", "dupcols_some"])}
        if es == "none":
            # random E (or no E at all): the special values are in B only
            d["bstruct"] = rng.choice(["dupcols", "dupcols", "dupcols_some"])
            d["emode"] = rng.choice(["E", "EM"])
        if es == "noE":
            d["bstruct"] = rng.choice(["dupcols", "dupcols", "dupcols_some"])
            d["emode"] = "none"
        _constrain(d, rng)
        if es == "someeq" and d["ncols"] < 3:
            if "broyden1" in (d["fwd"], d["bck"]):
                d["estruct"] = "alleq"
            else:
                d["ncols"] = 3
        if d["estruct"] in ESTRUCT_NEEDS_BATCH:
            BE = gen.BATCH_TUPLES_4[d["batch"]][2]
            if len(BE) == 0 or max(BE) < 2:
                d["batch"] = 3 if d["akind"] == "jac" else rng.choice([3, 5, 7])
        out.append(d)
    from vf import c02_extra
    out.extend(c02_extra.cases(seed, tier))
    return out


def _constrain(d, rng):
    """dependencies between the dimensions of a descriptor (all deterministic given the descriptor's own rng)"""
    if d["fwd"] == "gmres" or d["bck"] == "gmres":
        # gmres never uses the full Krylov space: only operators with few distinct eigenvalues let it terminate silently
        if d.get("group") == "gmres" or rng.random() < 0.85:
            d["akind"] = rng.choice(GMRES_A)
            d["mkind"] = "shared"
            d["n"] = max(d["n"], 5)
            if d["emode"] == "MnoE":
                d["emode"] = "EM"
    if d["fwd"] == "broyden1" or d["bck"] == "broyden1":
        d["n"] = min(d["n"], 5)
        d["ncols"] = min(d["ncols"], 2)
        d["batch"] = rng.choice([0, 1, 2, 3, 4, 5, 6, 7])
        if d["akind"] in GMRES_A and d["n"] < 5:
            d["akind"] = "lowrank"
    if d["akind"] == "jac":
        d["dtype"] = "float64"
        d["batch"] = rng.choice([0, 2, 3, 6])
        d["n"] = min(d["n"], 6)
    if d["fwd"] is None and d["n"] <= 5 and rng.random() < 0.7:
        d["n"] = rng.choice([6, 8])        # the default method switches to an iterative one above n = 5
        if d["bck"] == "broyden1":
            d["bck"] = "default"
    if d["akind"] in AKINDS_HERM and d["spectrum"] == "nonherm":
        d["spectrum"] = rng.choice(["spd", "indef"])
    if d["tol"] == "default" or d["bck"] in ("cg_default", "default"):
        d["kappa"] = min(d["kappa"], 10.0)
    if d["special"] == "unusedA" and d["akind"] not in ("mv_inside", "herm_inside", "mm_list"):
        d["akind"] = rng.choice(["mv_inside", "mm_list"] if d["spectrum"] == "nonherm" else ["mv_inside", "herm_inside", "mm_list"])


# ------------------------------------------------------------------------------------------------------- operators
def _H(x):
    return x.transpose(-2, -1).conj()


def _sym(x):
    return 0.5 * (x + _H(x))


def _leaf(x):
    return x.detach().clone().requires_grad_()


def make_op(attrs, matfn, shape, dtype, products, hermitian, counter, pnames):
    """fresh LinearOperator subclass instance holding `attrs` (tensors or lists of tensors); its dense matrix is
    matfn(self), evaluated from the attributes at every product, `pnames` is what _getparamnames reports"""
    import xitorch

    def cnt(name):
        counter[name] = counter.get(name, 0) + 1
    ns = {}

    def __init__(self):
        xitorch.LinearOperator.__init__(self, shape=tuple(shape), is_hermitian=hermitian, dtype=dtype, device=torch.device("cpu"),
                                        _suppress_hermit_warning=True)
        for k, v in attrs.items():
            setattr(self, k, list(v) if isinstance(v, (list, tuple)) else v)
    ns["__init__"] = __init__

    def _getparamnames(self, prefix=""):
        return [prefix + p for p in pnames]
    ns["_getparamnames"] = _getparamnames
    if "mv" in products:
        def _mv(self, x):
            cnt("mv")
            return torch.matmul(matfn(self), x.unsqueeze(-1)).squeeze(-1)
        ns["_mv"] = _mv
    if "rmv" in products:
        def _rmv(self, x):
            cnt("rmv")
            return torch.matmul(_H(matfn(self)), x.unsqueeze(-1)).squeeze(-1)
        ns["_rmv"] = _rmv
    if "mm" in products:
        def _mm(self, x):
            cnt("mm")
            return torch.matmul(matfn(self), x)
        ns["_mm"] = _mm
    if "rmm" in products:
        def _rmm(self, x):
            cnt("rmm")
            return torch.matmul(_H(matfn(self)), x)
        ns["_rmm"] = _rmm
    if "fullmatrix" in products:
        def _fullmatrix(self):
            cnt("fullmatrix")
            return matfn(self)
        ns["_fullmatrix"] = _fullmatrix
    cls = type("VfC02Op%d" % next(gen._cls_counter), (xitorch.LinearOperator,), ns)
    return cls()


def _matop(mat, products, counter, hermitian=False):
    return make_op({"mat": mat}, lambda s: s.mat, mat.shape, mat.dtype, products, hermitian, counter, ["mat"])


ALLP = ("mv", "rmv", "mm", "rmm", "fullmatrix")


class Built:
    """leaves (name -> tensor requiring grad), make(leaves) -> operator, dense(leaves) -> dense matrix, names of unused leaves"""

    def __init__(self, leaves, make, dense, unused=(), hermitian=False):
        self.leaves, self.make, self.dense, self.unused, self.hermitian = leaves, make, dense, set(unused), hermitian


def build_A(kind, n, BA, dt, spectrum, kappa, rng, tgen, counter, want_unused=False):
    import xitorch
    import xitorch.grad
    rdt = torch.float64
    eye = torch.eye(n, dtype=dt)
    L = collections.OrderedDict()
    skew = lambda shape: (lambda k: 0.5 * (k - _H(k)))(torch.randn(*shape, n, n, dtype=dt, generator=tgen))

    def rscalar(lo=0.6, hi=1.8):
        v = rng.uniform(lo, hi) * rng.choice([1.0, -1.0])
        if dt.is_complex:
            return torch.tensor(complex(v, rng.uniform(-0.7, 0.7)), dtype=dt)
        return torch.tensor(v, dtype=dt)

    if kind.startswith("lowrank"):
        r = rng.choice([1, 2]) if n > 1 else 1
        herm = kind in ("lowrank_herm", "lowrank_const_herm")
        const = kind.startswith("lowrank_const")
        # which of d / U carries the batch: forces reduction of parameter gradients over broadcast axes
        split = rng.choice(["both", "d", "U"]) if BA else "both"
        Bd = BA if split in ("both", "d") else ()
        BU = BA if split in ("both", "U") else ()
        dmax = min(kappa, 6.0)
        if const:
            d0 = 1.0 + (dmax - 1.0) * torch.rand(*Bd, 1, dtype=rdt, generator=tgen)
        else:
            d0 = 1.0 + (dmax - 1.0) * torch.rand(*Bd, n, dtype=rdt, generator=tgen)
        if not herm and dt.is_complex:
            d0 = d0.to(dt) + 0.5j * torch.randn(d0.shape, dtype=rdt, generator=tgen)
        elif not herm and rng.random() < 0.5:
            d0 = d0.to(dt)
        U0 = torch.randn(*BU, n, r, dtype=dt, generator=tgen)
        U0 = U0 / torch.linalg.matrix_norm(U0, ord=2)[..., None, None]
        t0 = torch.tensor(rng.uniform(0.8, 1.4), dtype=rdt)
        L["A.d0"], L["A.U0"], L["A.t"] = _leaf(d0), _leaf(U0), _leaf(t0)
        with_rmv = kind == "lowrank_rmv"
        ones = torch.ones(n, dtype=rdt)

        def derived(lv):
            d = lv["A.d0"] * ones if const else lv["A.d0"] * 1.0
            U = lv["A.U0"] * lv["A.t"]
            return d, U

        def make(lv):
            d, U = derived(lv)
            return gen.LowRankOp.make(d, U, herm, with_rmv)

        def dense(lv):
            d, U = derived(lv)
            return gen.LowRankOp.dense(d.to(dt), U)
        return Built(L, make, dense, hermitian=herm)

    A0 = gen.make_matrix(spectrum, n, BA, dt, kappa, rng, tgen)
    if kind == "dense":
        L["A.W"] = _leaf(A0)
        flag = None if spectrum == "nonherm" and n > 1 else False
        return Built(L, lambda lv: xitorch.LinearOperator.m(lv["A.W"], is_hermitian=flag), lambda lv: lv["A.W"] * 1.0)
    if kind == "dense_autoherm":
        # an UNCONSTRAINED leaf matrix whose value happens to be Hermitian: LinearOperator.m auto-detects (or is told) is_hermitian=True;
        # the reference differentiates W -> W^-1 B in every direction (the only Hermitian-flagged class not parametrised through a
        # symmetrising map: a dense-wrapped operator has the full matrix and can form its adjoint as a function of it)
        L["A.W"] = _leaf(A0)
        flag = rng.choice([None, None, True])
        return Built(L, lambda lv: xitorch.LinearOperator.m(lv["A.W"], is_hermitian=flag), lambda lv: lv["A.W"] * 1.0)
    if kind == "dense_sym":
        L["A.W"] = _leaf(A0 + skew(BA))
        flag = rng.choice([None, True])
        return Built(L, lambda lv: xitorch.LinearOperator.m(_sym(lv["A.W"]), is_hermitian=flag), lambda lv: _sym(lv["A.W"]), hermitian=True)
    if kind == "mv_scaled":
        s = rscalar()
        L["A.W"], L["A.s"] = _leaf(A0 / s), _leaf(s)
        return Built(L, lambda lv: _matop(lv["A.s"] * lv["A.W"], ("mv",), counter), lambda lv: lv["A.s"] * lv["A.W"])
    if kind in ("mv_inside", "herm_inside"):
        herm = kind == "herm_inside"
        if herm:
            L["A.W"] = _leaf(A0 + skew(BA))
            names = ["W"]
            matfn = lambda s: _sym(s.W)
            dense = lambda lv: _sym(lv["A.W"])
        else:
            s = rscalar()
            L["A.W"], L["A.s"] = _leaf(A0 / s), _leaf(s)
            names = ["W", "s"]
            matfn = lambda s_: s_.s * s_.W
            dense = lambda lv: lv["A.s"] * lv["A.W"]
        unused = []
        if want_unused:
            L["A.z"] = _leaf(torch.randn(n, dtype=dt, generator=tgen))
            names = names + ["z"]
            unused = ["A.z"]
        prods = ("mv", "mm") if herm else ("mv",)
        return Built(L, lambda lv: make_op({k: lv["A." + k] for k in names}, matfn, A0.shape, dt, prods, herm, counter, names),
                     dense, unused=unused, hermitian=herm)
    if kind == "mv_rmv_prod":
        W1 = gen.make_matrix("nonherm", n, (), dt, 3.0, rng, tgen)
        L["A.W1"], L["A.W2"] = _leaf(W1), _leaf(torch.linalg.solve(W1, A0))
        return Built(L, lambda lv: _matop(torch.matmul(lv["A.W1"], lv["A.W2"]), ("mv", "rmv"), counter),
                     lambda lv: torch.matmul(lv["A.W1"], lv["A.W2"]))
    if kind == "all_shift":
        c = rscalar()
        L["A.W"], L["A.c"] = _leaf(A0 - c * eye), _leaf(c)
        return Built(L, lambda lv: _matop(lv["A.W"] + lv["A.c"] * eye, ALLP, counter), lambda lv: lv["A.W"] + lv["A.c"] * eye)
    if kind == "mm_list":
        W1 = torch.randn(n, n, dtype=dt, generator=tgen)
        L["A.W1"], L["A.W2"] = _leaf(W1), _leaf(A0 - W1)
        names = ["ws[0]", "ws[1]"]
        attrs_of = lambda lv: {"ws": [lv["A.W1"], lv["A.W2"]]}
        unused = []
        if want_unused:
            L["A.z"] = _leaf(torch.randn(*BA, n, n, dtype=dt, generator=tgen))
            names = names + ["ws[2]"]
            attrs_of = lambda lv: {"ws": [lv["A.W1"], lv["A.W2"], lv["A.z"]]}
            unused = ["A.z"]
        return Built(L, lambda lv: make_op(attrs_of(lv), lambda s: s.ws[0] + s.ws[1], A0.shape, dt, ("mv", "mm"), False, counter, names),
                     lambda lv: lv["A.W1"] + lv["A.W2"], unused=unused)
    if kind == "herm_mv":
        L["A.W"] = _leaf(A0 + skew(BA))
        return Built(L, lambda lv: _matop(_sym(lv["A.W"]), ("mv",), counter, True), lambda lv: _sym(lv["A.W"]), hermitian=True)
    if kind == "add":
        W1 = torch.randn(*BA, n, n, dtype=dt, generator=tgen)
        L["A.W1"], L["A.W2"] = _leaf(W1), _leaf(A0 - W1)
        return Built(L, lambda lv: _matop(lv["A.W1"], ("mv", "rmv"), counter) + _matop(lv["A.W2"], ("mv",), counter),
                     lambda lv: lv["A.W1"] + lv["A.W2"])
    if kind == "sub":
        W2 = torch.randn(n, n, dtype=dt, generator=tgen)        # unbatched operand: its gradient is reduced over A's batch
        L["A.W1"], L["A.W2"] = _leaf(A0 + W2), _leaf(W2)
        return Built(L, lambda lv: _matop(lv["A.W1"], ALLP, counter) - _matop(lv["A.W2"] * 1.0, ("mv", "rmv"), counter),
                     lambda lv: lv["A.W1"] - lv["A.W2"])
    if kind in ("mul", "mul_herm"):
        c = rng.choice([2, -3, 0.5, -1.25])
        herm = kind == "mul_herm"
        if herm:
            L["A.W"] = _leaf(A0 / c + skew(BA))
            return Built(L, lambda lv: _matop(_sym(lv["A.W"]), ("mv", "mm"), counter, True) * c, lambda lv: c * _sym(lv["A.W"]),
                         hermitian=True)
        L["A.W"] = _leaf(A0 / c)
        return Built(L, lambda lv: _matop(lv["A.W"], ("mv",), counter) * c, lambda lv: c * lv["A.W"])
    if kind == "matmul":
        R = gen.make_matrix("nonherm", n, (), dt, 3.0, rng, tgen)
        L["A.W1"], L["A.W2"] = _leaf(torch.matmul(A0, torch.linalg.inv(R))), _leaf(R)
        return Built(L, lambda lv: _matop(lv["A.W1"], ("mv", "rmv"), counter).matmul(_matop(lv["A.W2"], ("mv",), counter)),
                     lambda lv: torch.matmul(lv["A.W1"], lv["A.W2"]))
    if kind in ("adj", "adj_mv"):
        prods = ("mv", "rmv") if kind == "adj" else ("mv",)
        L["A.W"] = _leaf(_H(A0).contiguous())
        return Built(L, lambda lv: _matop(lv["A.W"], prods, counter).H, lambda lv: _H(lv["A.W"]))
    if kind == "adj_herm":
        # .H of a Hermitian-flagged operator returns the operator itself
        L["A.W"] = _leaf(A0 + skew(BA))
        return Built(L, lambda lv: _matop(_sym(lv["A.W"]), ("mv",), counter, True).H, lambda lv: _sym(lv["A.W"]), hermitian=True)
    if kind == "nested":
        # ((P + Q) * c).H  with P mv-only and Q mv+rmv:  dense = c (W1 + W2)^H
        c = rng.choice([2, -0.5, 1.5])
        W1 = torch.randn(n, n, dtype=dt, generator=tgen)
        L["A.W1"], L["A.W2"] = _leaf(W1), _leaf(_H(A0) / c - W1)
        return Built(L, lambda lv: ((_matop(lv["A.W1"], ("mv",), counter) + _matop(lv["A.W2"], ("mv", "rmv"), counter)) * c).H,
                     lambda lv: c * _H(lv["A.W1"] + lv["A.W2"]))
    if kind == "add_shared":
        # P + P.H with the SAME leaf tensor behind both terms (one unique parameter, two parameter names); Hermitian in value, not flagged
        L["A.W"] = _leaf(0.5 * A0 + skew(BA))

        def make(lv):
            W = lv["A.W"]
            return _matop(W, ("mv",), counter) + _matop(W, ("mv", "rmv"), counter).H
        return Built(L, make, lambda lv: lv["A.W"] + _H(lv["A.W"]))
    if kind == "add_herm":
        W1 = torch.randn(*BA, n, n, dtype=dt, generator=tgen)
        L["A.W1"], L["A.W2"] = _leaf(W1), _leaf(A0 - _sym(W1) + skew(()))
        return Built(L, lambda lv: _matop(_sym(lv["A.W1"]), ("mv",), counter, True) + _matop(_sym(lv["A.W2"]), ("mv", "mm", "fullmatrix"), counter, True),
                     lambda lv: _sym(lv["A.W1"]) + _sym(lv["A.W2"]), hermitian=True)
    if kind == "jac":
        x0 = torch.randn(n, dtype=dt, generator=tgen)
        L["A.x0"], L["A.W"] = _leaf(x0), _leaf(A0 - 0.2 * torch.diag_embed(x0))

        def make(lv):
            def f(x, W):
                counter["mv"] = counter.get("mv", 0) + 1
                return torch.matmul(W, x) + 0.1 * x * x
            return xitorch.grad.jac(f, (lv["A.x0"], lv["A.W"]), idxs=0)
        return Built(L, make, lambda lv: lv["A.W"] + 0.2 * torch.diag_embed(lv["A.x0"]))
    raise HarnessBug("unknown operator kind %s" % kind)


def _shared_leaf(a_built):
    for k in ("A.U0", "A.W", "A.W1"):
        if k in a_built.leaves:
            return k
    return None


def build_M(kind, n, BM, dt, rng, tgen, counter, a_built):
    """Hermitian positive definite M (cond <= 5), parametrised through symmetrisation"""
    import xitorch
    rdt = torch.float64
    L = collections.OrderedDict()
    eye = torch.eye(n, dtype=dt)
    if kind == "shared":
        # M = m0 I + c P P^H / |P|^2 with P a leaf of A (gradients of that leaf get contributions from A and from M)
        pk = _shared_leaf(a_built)
        if pk is None:
            kind = "dense_sym"
        else:
            P0 = a_built.leaves[pk].detach()
            nrm = float(torch.linalg.matrix_norm(P0, ord=2).max()) ** 2
            cc = 1.5 / max(nrm, 1e-12)
            L["M.m0"] = _leaf(torch.tensor(rng.uniform(0.8, 1.6), dtype=rdt))
            shape = (*P0.shape[:-2], n, n)
            prods = rng.choice([("mv",), ("mv", "mm"), ("mv", "mm", "fullmatrix")])

            def matM(lv):
                P = lv[pk].to(dt) if not lv[pk].is_complex() and dt.is_complex else lv[pk]
                return lv["M.m0"] * eye + cc * torch.matmul(P, _H(P))
            return Built(L, lambda lv: make_op({"mat": matM(lv)}, lambda s: s.mat, shape, dt, prods, True, counter, ["mat"]), matM,
                         hermitian=True), tuple(P0.shape[:-2])
    if kind == "lowrank_herm":
        dm = 1.0 + 1.5 * torch.rand(*BM, n, dtype=rdt, generator=tgen)
        Um = torch.randn(n, 1, dtype=dt, generator=tgen)
        Um = Um / torch.linalg.matrix_norm(Um, ord=2)
        L["M.d"], L["M.U"] = _leaf(dm), _leaf(Um)
        return Built(L, lambda lv: gen.LowRankOp.make(lv["M.d"] * 1.0, lv["M.U"] * 1.0, True, False),
                     lambda lv: gen.LowRankOp.dense(lv["M.d"].to(dt), lv["M.U"]), hermitian=True), BM
    M0 = gen.make_matrix("spd", n, BM, dt, 5.0, rng, tgen)
    K = torch.randn(*BM, n, n, dtype=dt, generator=tgen)
    K = 0.5 * (K - _H(K))
    if kind == "dense_sym":
        L["M.V"] = _leaf(M0 + K)
        flag = rng.choice([None, True])
        return Built(L, lambda lv: xitorch.LinearOperator.m(_sym(lv["M.V"]), is_hermitian=flag), lambda lv: _sym(lv["M.V"]), hermitian=True), BM
    if kind in ("herm_mv", "herm_all"):
        prods = ("mv",) if kind == "herm_mv" else ("mv", "mm", "fullmatrix")
        L["M.V"] = _leaf(M0 + K)
        return Built(L, lambda lv: _matop(_sym(lv["M.V"]), prods, counter, True), lambda lv: _sym(lv["M.V"]), hermitian=True), BM
    if kind == "herm_inside":
        L["M.V"] = _leaf(M0 + K)
        return Built(L, lambda lv: make_op({"V": lv["M.V"]}, lambda s: _sym(s.V), M0.shape, dt, ("mv", "mm"), True, counter, ["V"]),
                     lambda lv: _sym(lv["M.V"]), hermitian=True), BM
    if kind == "mul_herm":
        c = rng.choice([2, 0.5, 1.25])
        L["M.V"] = _leaf(M0 / c + K)
        return Built(L, lambda lv: _matop(_sym(lv["M.V"]), ("mv",), counter, True) * c, lambda lv: c * _sym(lv["M.V"]), hermitian=True), BM
    raise HarnessBug("unknown M kind %s" % kind)


# ------------------------------------------------------------------------------------------------------- spies
SOLVER_NAMES = ["cg", "bicgstab", "gmres", "broyden1_solve", "exactsolve", "custom_exactsolve"]
ITER_TOL = {"cg": ("rtol", 1e-6), "bicgstab": ("rtol", 1e-6), "gmres": ("rtol", 1e-6), "broyden1_solve": ("f_tol", 1e-6)}
BCK_NAME = {"exactsolve": "exactsolve", "custom_exactsolve": "custom_exactsolve", "cg": "cg", "bicgstab": "bicgstab", "gmres": "gmres",
            "broyden1": "broyden1_solve", "cg_default": "cg"}


class SolverSpy:
    """records (phase, solver name, options) for every top-level entry into one of xitorch's solver implementations"""

    def __init__(self):
        self.log = []
        self.phase = "forward"
        self._depth = 0
        self._saved = None

    def __enter__(self):
        import xitorch.linalg  # noqa
        mod = sys.modules["xitorch.linalg.solve"]
        self._mod = mod
        self._saved = {k: getattr(mod, k) for k in SOLVER_NAMES}
        for k, fn in self._saved.items():
            setattr(mod, k, self._wrap(k, fn))
        return self

    def __exit__(self, *a):
        for k, fn in self._saved.items():
            setattr(self._mod, k, fn)
        return False

    def _wrap(self, name, fn):
        spy = self

        def wrapper(A, B, E=None, M=None, **options):
            if spy._depth == 0:
                spy.log.append((spy.phase, name, {k: v for k, v in options.items() if isinstance(v, (int, float, str)) or v is None},
                                bool(getattr(A, "is_hermitian", False))))
            spy._depth += 1
            try:
                return fn(A, B, E, M, **options)
            finally:
                spy._depth -= 1
        wrapper.__name__ = getattr(fn, "__name__", name)
        return wrapper


def make_backward_spy(calls, n):
    """a user-supplied solver callable (dense per-column solve written with torch only) that records how it was called"""
    def vf_spy_solver(A, B, E=None, M=None, **options):
        calls.append({k: v for k, v in options.items() if isinstance(v, (int, float, str))})
        Ad = A.fullmatrix()
        ncols = B.shape[-1]
        if E is None:
            S = Ad.unsqueeze(-3)
            bs = torch.broadcast_shapes(Ad.shape[:-2], B.shape[:-2])
        else:
            Md = M.fullmatrix() if M is not None else torch.eye(n, dtype=Ad.dtype)
            S = Ad.unsqueeze(-3) - E.reshape(*E.shape, 1, 1) * Md.unsqueeze(-3)
            bs = torch.broadcast_shapes(Ad.shape[:-2], B.shape[:-2], E.shape[:-1], Md.shape[:-2])
        S = S.expand(*bs, ncols, n, n)
        Bx = B.expand(*bs, n, ncols).transpose(-2, -1).unsqueeze(-1)
        return torch.linalg.solve(S, Bx).squeeze(-1).transpose(-2, -1)
    return vf_spy_solver


# ------------------------------------------------------------------------------------------------------- the monitor
def _reference(Ad, Md, B, E, full_b, n, ncols, dt):
    if E is None:
        S = Ad.unsqueeze(-3)
    else:
        Mx = Md if Md is not None else torch.eye(n, dtype=dt)
        S = Ad.unsqueeze(-3) - E.reshape(*E.shape, 1, 1) * Mx.unsqueeze(-3)
    S = S.expand(*full_b, ncols, n, n)
    Bx = B.expand(*full_b, n, ncols).transpose(-2, -1).unsqueeze(-1)
    return torch.linalg.solve(S, Bx).squeeze(-1).transpose(-2, -1)


def _structure_E(E0, es, rng, scale):
    """impose the value structure `es` on a random E0 (*BE, ncols); returns a fresh contiguous tensor"""
    nb = E0.dim() - 1
    ncols = E0.shape[-1]
    if es in ("alleq", "expview_cols"):
        return E0[..., :1].expand_as(E0).clone()
    if es in ("full", "expview", "derived_full"):
        return torch.full_like(E0, E0.flatten()[0].item())
    if es == "zeros":
        return torch.zeros_like(E0)
    if es == "ones_mult":
        return torch.ones_like(E0) * (rng.choice([1.0, -1.0, 0.5, -0.25, 2.0, -0.75]) * min(scale * 2.5, 1.0))
    if es == "someeq":
        i, j = rng.sample(range(ncols), 2)
        E1 = E0.clone()
        E1[..., j] = E1[..., i]
        return E1
    if es == "alleq_partbatch":
        E1 = E0.clone().reshape(-1, ncols)
        pick = [b for b in range(E1.shape[0]) if rng.random() < 0.5] or [0]
        if len(pick) == E1.shape[0]:
            pick = pick[:-1]
        for b in pick:
            E1[b] = E1[b, 0]
        return E1.reshape(E0.shape)
    if es in ("batchshared", "expview_batch"):
        return E0[(0,) * nb].expand_as(E0).clone()
    raise HarnessBug("unknown E structure %s" % es)


def _e_leaf_and_map(E0, es):
    """(value of the differentiated leaf, map leaf -> tensor handed to solve) for a structured E0"""
    shape = tuple(E0.shape)
    nb = E0.dim() - 1
    if es == "expview":
        return E0.flatten()[0].clone(), (lambda t: t.expand(shape))
    if es == "expview_cols":
        return E0[..., :1].clone(), (lambda t: t.expand(shape))
    if es == "expview_batch":
        return E0[(0,) * nb].clone(), (lambda t: t.expand(shape))
    if es == "derived_full":
        ones = torch.ones(shape, dtype=torch.float64)
        return E0.flatten()[0].clone(), (lambda t: t * ones)
    return E0, None


def _inner(c, x):
    return (c.conj() * x).sum().real


def _role(name, shared):
    if name in shared:
        return "AM"
    return name.split(".")[0]


def run_case(desc):
    if desc.get("group") == "reassign":
        from vf import c02_extra
        return c02_extra.run_case(desc)
    import xitorch  # noqa
    from xitorch.linalg import solve
    obs = Obs(desc)
    rng = random.Random(desc["seed"])
    tgen = torch.Generator().manual_seed(desc["seed"])
    dt = gen.rdtype(desc["dtype"])
    rdt = torch.float64
    n, ncols = desc["n"], desc["ncols"]
    fwd, bck, akind, mkind, emode, spectrum = desc["fwd"], desc["bck"], desc["akind"], desc["mkind"], desc["emode"], desc["spectrum"]
    BA, BB, BE, BM = gen.BATCH_TUPLES_4[desc["batch"]]
    if akind == "jac":
        BA = ()
    if emode in ("none", "MnoE"):
        BE = ()
    if emode in ("none", "E"):
        BM = ()
    counter = {}
    # ---------------- leaves
    a = build_A(akind, n, BA, dt, spectrum, desc["kappa"], rng, tgen, counter, want_unused=desc["special"] == "unusedA")
    m = None
    if emode in ("EM", "MnoE"):
        m, BM = build_M(mkind, n, BM, dt, rng, tgen, counter, a)
    leaves = collections.OrderedDict(a.leaves)
    shared = set()
    if m is not None:
        for k, v in m.leaves.items():
            leaves[k] = v
        if mkind == "shared" and any(k.startswith("M.m0") for k in m.leaves):
            shared.add(_shared_leaf(a))      # the A leaf that M is built from
    with torch.no_grad():
        A0 = a.dense(leaves).detach()
        M0 = m.dense(leaves).detach() if m is not None else None
    BA_eff = tuple(A0.shape[:-2])
    BM_eff = tuple(M0.shape[:-2]) if M0 is not None else ()
    try:
        full_b = gen.bshape(BA_eff, BB, BE, BM_eff if emode == "EM" else ())
    except RuntimeError:
        # a shared M inherits A's batch shape: fall back to fully matching batches
        BB, BE = BA_eff, BA_eff if emode == "EM" else ()
        full_b = gen.bshape(BA_eff, BB, BE, BM_eff if emode == "EM" else ())
    # ---------------- shifts keeping cond(A - e M) <= KMAX
    E0 = None
    Md0 = M0 if (M0 is not None and emode == "EM") else torch.eye(n, dtype=dt)
    complexE = False
    # a real-dtype E in a complex system (its gradient must come out real)
    real_e = desc["special"] == "realE" and dt.is_complex and emode in ("E", "EM")
    # classes in which a solver may run with its default tolerance (1e-6) are kept at cond <= 12
    loose = desc["tol"] == "default" or bck in ("default", "cg_default")
    kbound = 12.0 if loose else min(KMAX, 4 * desc["kappa"])
    # special structure of E / B (group 'estruct'); classes that need a batch of shifts degrade to 'alleq' when E ends up unbatched
    estruct = desc.get("estruct") if emode in ("E", "EM") else None
    bstruct = desc.get("bstruct")
    if estruct in ("none", "noE"):
        estruct = None
    if estruct in ESTRUCT_NEEDS_BATCH and (len(BE) == 0 or max(BE) < 2):
        estruct = "alleq"
    if estruct == "someeq" and ncols < 3:
        estruct = "alleq"
    if emode in ("E", "EM"):
        scale = 1.0
        for attempt in range(10):
            if dt.is_complex and attempt < 7 and rng.random() < 0.65 and not real_e:
                E0 = torch.randn(*BE, ncols, dtype=dt, generator=tgen) * scale
                complexE = True
            else:
                E0 = (torch.randn(*BE, ncols, dtype=rdt, generator=tgen) * scale).to(rdt if real_e else dt)
                complexE = False
            if spectrum == "spd" and attempt >= 1 and not complexE:
                E0 = -E0.abs() if not E0.is_complex() else (-(E0.real.abs())).to(dt)
            if estruct is not None:
                E0 = _structure_E(E0, estruct, rng, scale)
                complexE = bool(E0.is_complex() and (E0.imag != 0).any())
            S0 = A0.unsqueeze(-3) - E0.reshape(*E0.shape, 1, 1) * Md0.unsqueeze(-3)
            sv = torch.linalg.svdvals(S0)
            kap = float((sv[..., 0] / sv[..., -1]).max())
            if kap <= kbound:
                break
            scale *= 0.4
        else:
            E0 = torch.zeros(*BE, ncols, dtype=rdt if real_e else dt)
            complexE = False
            if estruct is not None:
                estruct = "zeros_fallback"
            S0 = A0.unsqueeze(-3) + 0 * Md0.unsqueeze(-3)
            sv = torch.linalg.svdvals(S0)
            kap = float((sv[..., 0] / sv[..., -1]).max())
    else:
        sv = torch.linalg.svdvals(A0)
        kap = float((sv[..., 0] / sv[..., -1]).max())
    if not (kap <= KMAX * 1.0001):
        obs.skip("generator: cond %.1f above the stated bound" % kap)
        return obs.result()
    B0 = torch.randn(*BB, n, ncols, dtype=dt, generator=tgen)
    if desc["special"] == "zeroB":
        B0 = torch.zeros_like(B0)
    elif bstruct == "dupcols" and ncols >= 2:
        B0 = B0[..., :1].expand_as(B0).clone()
    elif bstruct == "dupcols_some" and ncols >= 2:
        ci, cj = rng.sample(range(ncols), 2)
        B0[..., cj] = B0[..., ci]
    else:
        bstruct = None
    leaves["B"] = _leaf(B0)
    e_map = None
    if E0 is not None:
        if estruct in ESTRUCT_VIEW:
            e0, e_map = _e_leaf_and_map(E0, estruct)
            leaves["E"] = _leaf(e0)
        else:
            leaves["E"] = _leaf(E0)
    # some inputs do not require grad: they are still parameters of the operators / arguments of solve
    frozen = []
    if desc["special"] == "frozenA":
        # (the point at which a Jacobian operator is taken must require grad: xitorch.grad.jac rejects it otherwise)
        cand = [k for k in a.leaves if k not in a.unused and k not in shared and k != "A.x0"]
        if len(cand) >= 2 or (cand and akind == "jac"):
            frozen = [cand[rng.randrange(len(cand))]]
        if m is not None and emode == "EM" and rng.random() < 0.5:
            frozen += [k for k in m.leaves][:1]
    elif desc["special"] == "frozenBE":
        frozen = [rng.choice(["B", "E"])] if "E" in leaves else ["B"]
    for k in frozen:
        leaves[k] = leaves[k].detach()
    names = [k for k in leaves if leaves[k].requires_grad]
    tens = [leaves[k] for k in names]
    variant = desc.get("variant") or ""
    # `eff`: the tensors handed to the operators and to solve.  "chained": every one is its leaf times a (positive, real) scalar function of the
    # previous leaf, i.e. the inputs of solve depend on one another through autograd history (structure - Hermitian, SPD - is preserved)
    eff = leaves
    if e_map is not None and "chained" not in variant:
        eff = collections.OrderedDict(leaves)
        eff["E"] = e_map(leaves["E"])
    if "chained" in variant:
        eff = collections.OrderedDict()
        prev = None
        for k, v in leaves.items():
            eff[k] = v * (1.0 + 0.03 * torch.tanh(prev.real.mean() * 3.0 + 0.5)) if (prev is not None and v.requires_grad) else v
            if v.requires_grad:
                prev = v
        if e_map is not None:
            eff["E"] = e_map(eff["E"])
        with torch.no_grad():
            Ae = a.dense(eff)
            if emode in ("E", "EM"):
                Mde = m.dense(eff) if (m is not None and emode == "EM") else torch.eye(n, dtype=dt)
                Se = Ae.unsqueeze(-3) - eff["E"].reshape(*eff["E"].shape, 1, 1) * Mde.unsqueeze(-3)
            else:
                Se = Ae
            sve = torch.linalg.svdvals(Se)
            kap = max(kap, float((sve[..., 0] / sve[..., -1]).max()))
        if not (kap <= KMAX * 1.05):
            obs.skip("generator: cond %.1f of the chained system above the stated bound" % kap)
            return obs.result()
        obs.count("chained_input_cases")

    # ---------------- options
    tight = desc["tol"] == "tight"
    fopts = {}
    if fwd in ("cg", "bicgstab", "gmres"):
        if tight:
            fopts.update(rtol=1e-10, atol=1e-12)
        if fwd != "gmres":
            fopts.update(max_niter=10 * n + 20)
    elif fwd == "broyden1":
        fopts.update(f_tol=1e-10, x_tol=1e-9) if tight else None
    elif fwd is None and tight:
        fopts.update(rtol=1e-10, atol=1e-12, max_niter=10 * n + 20)
    spy_calls = []
    marker = 1000 + desc["seed"] % 997
    if bck == "default":
        bopts = {}
    elif bck in ("exactsolve", "custom_exactsolve"):
        bopts = {"method": bck}
    elif bck in ("cg", "bicgstab"):
        bopts = {"method": bck, "rtol": 1e-10, "atol": 1e-12, "max_niter": 10 * n + 20}
    elif bck == "gmres":
        bopts = {"method": "gmres", "rtol": 1e-10, "atol": 1e-12}
    elif bck == "broyden1":
        bopts = {"method": "broyden1", "f_tol": 1e-10, "x_tol": 1e-9}
    elif bck == "cg_default":
        bopts = {"method": "cg", "max_niter": 10 * n + 20}
    elif bck == "spy":
        bopts = {"method": make_backward_spy(spy_calls, n), "vf_marker": marker}
    else:
        raise HarnessBug("unknown backward setting %s" % bck)

    cfg = "%s:%s:%s%s%s%s" % (fwd or "auto", bck, emode, ":realE" if real_e else "", ":autoherm" if akind == "dense_autoherm" else "",
                              (":" + desc["variant"]) if desc.get("variant") else "")
    if estruct is not None:
        cfg += ":E=" + estruct
    if bstruct is not None:
        cfg += ":B=" + bstruct
    if real_e:
        obs.count("real_E_in_complex_system")
    obs.note(kappa=kap, complexE=complexE, leaves={k: list(v.shape) for k, v in leaves.items()}, full_batch=list(full_b), frozen=frozen)
    if frozen:
        obs.count("frozen_input_cases")

    def fail(stage, e):
        obs.exc_violation("%s:%s" % (stage, cfg), e, akind=akind, mkind=mkind if m is not None else None, dtype=str(dt))
        obs.nontrivial = True
        return obs.result()

    sspy = SolverSpy()
    with WarnLog() as wl, sspy:
        # ------------ reference from the same leaves
        Ad = a.dense(eff)
        Mdd = m.dense(eff) if (m is not None and emode == "EM") else None
        Xref = _reference(Ad, Mdd, eff["B"], eff.get("E"), full_b, n, ncols, dt)
        # ------------ the monitored forward call
        try:
            Aop = a.make(eff)
            Mop = m.make(eff) if m is not None else None
        except Exception as e:  # noqa
            return fail("construct", e)
        for k in list(counter):
            counter[k] = 0
        try:
            X = solve(Aop, eff["B"], eff.get("E"), Mop, bck_options=bopts, method=fwd, **fopts)
        except Exception as e:  # noqa
            return fail("forward", e)
        fwd_products = sum(counter.values())
        fwd_warned = bool(wl.convergence)
        want_shape = tuple(full_b) + (n, ncols)
        if tuple(X.shape) != want_shape or X.dtype != dt:
            obs.check(False, "forward_shape:%s" % cfg, "solve returned shape %s dtype %s, expected %s %s" % (tuple(X.shape), X.dtype, want_shape, dt))
            obs.nontrivial = True
            return obs.result()
        fwd_calls = [c for c in sspy.log if c[0] == "forward"]
        eff_fwd = fwd_calls[0][1] if fwd_calls else "none"
        obs.count("fwd_%s" % (eff_fwd[:-6] if eff_fwd.endswith("_solve") else eff_fwd))
        obs.count("emode_%s" % emode)
        obs.count("akind_%s" % akind)
        if m is not None:
            obs.count("mkind_%s" % mkind)
        if fwd_warned:
            obs.count("forward_warned_not_compared")
            obs.note(forward_warning=wl.convergence[:1])
            return obs.result()
        xerr = float(torch.linalg.vector_norm(X.detach() - Xref.detach()) / (torch.linalg.vector_norm(Xref.detach()) + 1e-300))
        obs.note(forward_rel_err=xerr)

        # ------------ cotangents
        C = torch.randn(want_shape, dtype=dt, generator=tgen)
        if desc["special"] == "zerocol_cot" and ncols > 1:
            C[..., 0] = 0
        D = [torch.randn(t.shape, dtype=t.dtype, generator=tgen) for t in tens]
        if "nlloss" in variant:
            Wq = torch.rand(want_shape, dtype=rdt, generator=tgen)
            scl = 0.5 / (1.0 + float(Xref.detach().abs().max()))
            lossf = lambda x: _inner(C, x) + scl * (Wq * (x.conj() * x).real).sum()     # noqa: E731
            obs.count("nonlinear_loss_cases")
        else:
            lossf = lambda x: _inner(C, x)                                              # noqa: E731
        Lx = lossf(X)
        Lr = lossf(Xref)
        gref = torch.autograd.grad(Lr, tens, create_graph=True, allow_unused=True)
        L2r = sum(_inner(Di, gi) for Di, gi in zip(D, gref) if gi is not None and gi.requires_grad)
        ggref = torch.autograd.grad(L2r, tens, allow_unused=True, retain_graph=True) if isinstance(L2r, torch.Tensor) else [None] * len(tens)

        # ------------ phase 1: backward not recorded
        sspy.phase = "first_nograph"
        for k in list(counter):
            counter[k] = 0
        try:
            g1 = torch.autograd.grad(Lx, tens, retain_graph=True, allow_unused=True)
        except Exception as e:  # noqa
            return fail("backward_nograph", e)
        bwd_products = sum(counter.values())
        warned1 = len(wl.convergence) > 0
        # ------------ phase 2: backward recorded
        sspy.phase = "first_graph"
        g2 = gg = None
        warned2 = warned3 = False
        if not warned1:
            try:
                g2 = torch.autograd.grad(Lx, tens, create_graph=True, allow_unused=True)
            except Exception as e:  # noqa
                return fail("backward_graph", e)
            warned2 = len(wl.convergence) > 0
            # ------------ phase 3: second order
            sspy.phase = "second"
            if not warned2:
                L2 = sum(_inner(Di, gi) for Di, gi in zip(D, g2) if gi is not None and gi.requires_grad)
                if isinstance(L2, torch.Tensor):
                    try:
                        gg = torch.autograd.grad(L2, tens, allow_unused=True)
                    except Exception as e:  # noqa
                        return fail("backward_second", e)
                else:
                    gg = [None] * len(tens)
                warned3 = len(wl.convergence) > 0
    # ------------------------------------------------------------------------------ oracle
    calls = sspy.log
    bcalls = [c for c in calls if c[0] != "forward"]
    obs.count("backward_solver_calls", len(bcalls))
    obs.count("spy_backward_calls", len(spy_calls))
    obs.count("forward_operator_products", fwd_products)
    obs.count("backward_operator_products", bwd_products)
    for c in bcalls:
        obs.count("bckran_%s" % c[1])
    # loosest tolerance that actually ran
    t_eff = 0.0
    for ph, name, opts, _ in calls:
        if name in ITER_TOL:
            key, dflt = ITER_TOL[name]
            v = opts.get(key)
            t_eff = max(t_eff, float(dflt if v is None else v))
    tol1 = max(2e-8, 300 * t_eff * kap)
    tol2 = max(2e-7, 300 * t_eff * kap * kap)
    through_fcn = eff_fwd not in ("exactsolve",)       # plain exactsolve is differentiated by torch itself
    obs.note(eff_fwd=eff_fwd, t_eff=t_eff, tol1=tol1, tol2=tol2,
             solver_calls=["%s:%s" % (c[0], c[1]) for c in calls][:12], n_solver_calls=len(calls))

    # (a) the backward options are honoured: every backward solve runs the requested method with the requested options
    if through_fcn and bck != "default":
        obs.count("bck_method_checked")
        p1 = [c for c in bcalls if c[0] == "first_nograph"]
        if bck == "spy":
            ok = len(spy_calls) >= 1 and all(c.get("vf_marker") == marker for c in spy_calls) and not bcalls
            obs.check(ok, "bck_options:%s" % cfg,
                      "backward solver given as a callable in bck_options: called %d times (options seen: %s); other solvers run in backward: %s"
                      % (len(spy_calls), spy_calls[:1], [c[1] for c in bcalls][:4]))
        else:
            want = BCK_NAME[bck]
            names_ok = len(p1) >= 1 and all(c[1] == want for c in bcalls)
            opts_ok = True
            for c in bcalls:
                for k, v in bopts.items():
                    if k != "method" and c[1] == want and want != "exactsolve" and c[2].get(k) != v:
                        opts_ok = False
            obs.check(names_ok and opts_ok, "bck_options:%s" % cfg,
                      "bck_options %s but the backward solves were %s" % ({k: v for k, v in bopts.items()},
                                                                           [(c[0], c[1], c[2]) for c in bcalls][:4]))
    for c in bcalls:
        if c[1] == "cg" and not (c[3] and not complexE):
            obs.count("normal_equation_backward")
            break

    def compare(g, ref, order, phase, tol):
        """per-leaf comparison; returns (largest err/tol, number of leaves compared)"""
        refn = [float(torch.linalg.vector_norm(r.detach())) if r is not None else 0.0 for r in ref]
        scale = max(refn + [1e-300])
        worst = 0.0
        for name, gi, ri, rn in zip(names, g, ref, refn):
            role = "unused" if name in a.unused else _role(name, shared)
            if emode == "MnoE" and name.startswith("M."):
                role = "MnoE"
            gz = gi if gi is not None else torch.zeros_like(leaves[name])
            rz = ri if ri is not None else torch.zeros_like(leaves[name])
            if tuple(gz.shape) != tuple(leaves[name].shape):
                obs.check(False, "grad_shape_%s:%s:%s" % (role, cfg, phase), "gradient of %s has shape %s, leaf has %s" % (name, tuple(gz.shape), tuple(leaves[name].shape)))
                continue
            err = float(torch.linalg.vector_norm(gz.detach() - rz.detach()))
            if err != err:
                err = float("inf")
            den = rn + 0.02 * scale + 1e-300
            ratio = err / den / tol
            worst = max(worst, ratio)
            if role in ("unused", "MnoE"):
                obs.count("unused_param_checked")
            obs.check(ratio <= 1.0, "grad_%s:%s:%s" % (role, cfg, phase),
                      "%s-order gradient w.r.t. %s (%s) differs from the dense reference: |g-g_ref| = %.3e, |g_ref| = %.3e, max leaf |g_ref| = %.3e, "
                      "tolerance %.1e (cond %.1f, loosest solver tolerance %.1e)%s"
                      % (order, name, "backward " + phase, err, rn, scale, tol, kap, t_eff, "; got None" if gi is None else ""),
                      akind=akind, mkind=mkind if m is not None else None, dtype=str(dt), n=n, ncols=ncols, batch=desc["batch"],
                      complexE=complexE, spectrum=spectrum, eff_fwd=eff_fwd)
        return worst

    czero = bool((C == 0).all())
    a_ref_nonzero = any((r is not None and float(torch.linalg.vector_norm(r.detach())) > 0) for nme, r in zip(names, gref)
                        if nme.startswith("A.") and nme not in a.unused)
    w1 = w2 = w3 = None
    if warned1:
        obs.count("backward_warned_not_compared")
    else:
        w1 = compare(g1, gref, "first", "nograph", tol1)
        obs.count("compared_first_nograph")
        if tuple(leaves["B"].shape) != want_shape:
            obs.count("reduced_B")
        if "E" in leaves and tuple(leaves["E"].shape) != tuple(full_b) + (ncols,):
            obs.count("reduced_E")
        if complexE:
            obs.count("complex_E_cases")
        if desc["special"] == "zeroB":
            obs.count("zero_rhs_cases")
        # reach of the structured-E / structured-B classes
        in_es = desc.get("group") == "estruct"
        Eh = eff.get("E")
        e_diff = in_es and Eh is not None and "E" in names
        coleq = bool(e_diff and ncols >= 2 and e_map is None and (Eh.detach() == Eh.detach()[..., :1]).all())
        dense_names = ("exactsolve", "custom_exactsolve")
        if in_es:
            obs.count("estruct_compared_first")
            obs.count("estruct_%s" % (estruct or ("noE" if emode == "none" else "none")))
            if bstruct is not None:
                obs.count("bstruct_dupcols")
                if bool((leaves["B"].detach() == leaves["B"].detach()[..., :1]).all()) and ncols >= 2 and "B" in names:
                    obs.count("bstruct_coleq_dense_forward" if eff_fwd in dense_names else "bstruct_coleq_iterative_forward")
            if e_diff and estruct is not None:
                obs.count("estruct_withM" if emode == "EM" else "estruct_noM")
                if e_map is not None:
                    obs.count("estruct_view_of_smaller_leaf")
                if bool((Eh.detach() == 0).all()):
                    obs.count("estruct_E_exactly_zero")
            if coleq and eff_fwd in dense_names:
                obs.count("estruct_coleq_dense_forward")
            if coleq and eff_fwd not in dense_names:
                obs.count("estruct_coleq_iterative_forward")
        if g2 is not None and not warned2:
            w2 = compare(g2, gref, "first", "graph", tol1)
            obs.count("compared_first_graph")
            if gg is not None and not warned3:
                w3 = compare(gg, ggref, "second", "second", tol2)
                obs.count("compared_second")
                if in_es:
                    obs.count("estruct_compared_second")
                    if coleq and any(c[1] in dense_names for c in bcalls):
                        obs.count("estruct_coleq_dense_backward_second")
                    if coleq and bcalls and not any(c[1] in dense_names for c in bcalls):
                        obs.count("estruct_coleq_iterative_backward_second")
            elif warned3:
                obs.count("second_warned_not_compared")
        elif warned2:
            obs.count("backward_warned_not_compared")
    obs.note(worst_ratio_first_nograph=w1, worst_ratio_first_graph=w2, worst_ratio_second=w3, warnings=wl.convergence[:2],
             fwd_products=fwd_products, bwd_products=bwd_products)
    obs.nontrivial = (n >= 2 and not czero and w1 is not None and w2 is not None and (a_ref_nonzero or desc["special"] == "zeroB"))
    return obs.result()
