"""C07 group "tdtype": the time grid has another dtype than the state.

`torch.tensor([0., .25, .5])`, `torch.linspace(0, 1, 5)` and `torch.arange(0., 3.)` are float32 and `torch.arange(0, 4)` is int64 whatever the
dtype of the state, so a float32 / float16 / integer grid with a float64 state (and a float64 grid with a float32 state) is an ordinary call.
Every other group of the check builds ts and y0 in ONE dtype.  Oracles (all five methods, tensor and tuple/list states):

* every returned component has the dtype (and shape) of the corresponding component of y0;
* y(ts[0]) is y0 (value-exact after widening; bitwise when the dtypes agree);
* lockstep replay of the recorded right-hand-side calls against the literature tableau in the STATE's precision, the grid values converted
  exactly: stage states and step result within 1e3 eps(state) of y_i + h sum_j a_sj K_j with the recorded slopes K_j; stage times within
  eps(grid) units; h = ts[i+1]-ts[i] exactly when that difference is representable in the grid's dtype (dyadic and integer grids), and up to
  one rounding of the grid's dtype otherwise.  For the embedded pairs the whole accept/reject history is replayed (vf.props.c07.replay_adaptive)
  with the time comparisons at the lower of the two precisions;
* float64 states with the adaptive methods: global error against the closed form at the (exactly converted) grid values, same bound as group
  accuracy.

Added after seeded change C07-r6-a (result buffer of the fixed-step methods allocated with the dtype of the time grid) was missed.

Not generated (behaviour of the unchanged tree that the property statement does not speak about): integer grids with the adaptive methods
(`h *= factor` on an integer step size raises RuntimeError unless the factor happens to be the integer cap 10) and float16 grids with the adaptive
methods (the step size itself is then carried in float16); a 0-dim float32 TENSOR state with a float64 grid and a fixed-step method (0-dim x 0-dim
type promotion widens the state to float64 after the first step: values are exact, the dtype is not the state's) - such a state is reshaped to (1,)."""
import random

import torch

from vf.common import Obs, sub_seed, HarnessBug

GRID_DT = {"t32": torch.float32, "t64": torch.float64, "t16": torch.float16, "ti64": torch.int64, "ti32": torch.int32}
STATE_DT = {"y64": torch.float64, "y32": torch.float32}
COMBOS_ALL = ["t32_y64", "t64_y32"]                                        # all five methods
COMBOS_FIXED = ["t16_y64", "ti64_y64", "t16_y32", "ti32_y64", "ti64_y32"]    # fixed-step methods only (see module docstring)
METHODS = ["euler", "rk4", "rk38", "rk23", "rk45"]
FIXED = ("euler", "rk4", "rk38")
FAMS = ["separable", "bernoulli", "linear", "tuplelinear", "harmonic", "separable", "damped", "logistic", "bernoulli", "tuplelinear"]
K_RK23_RESOLVED = 400.0    # largest ratio seen in this group on the unchanged tree (15000 cases): 3.09 (rk23, resolved steps; the same with a float64 grid)
T_UNITS = 100.0       # stage times: multiples of eps(grid) x (|t0| + |h|); largest seen on the unchanged tree: 0.78 (a wrong c_j gives > 1e3 even in float16)


def cases(seed, tier):
    out = []
    n = 400 if tier == "quick" else 3000
    for i in range(n):
        rng = random.Random(sub_seed(seed, "c07td", i))
        m = METHODS[i % 5]
        r = i // 5          # running index per method
        if m in FIXED:
            # the two float combinations get half of the fixed-step cases
            combo = COMBOS_ALL[r // 2 % 2] if r % 2 == 0 else COMBOS_FIXED[r // 2 % len(COMBOS_FIXED)]
        else:
            combo = COMBOS_ALL[r % 2]
        integer = combo.startswith("ti")
        if m in FIXED:
            tol = None
        elif combo.endswith("y32"):
            tol = rng.choice([[1e-4, 1e-3], [1e-5, 1e-4]])
        else:
            tol = rng.choice(["default", "loose", "default"])
        out.append({"group": "tdtype", "seed": sub_seed(seed, "c07tds", i), "method": m, "combo": combo,
                    "grid": "integer" if integer else rng.choice(["dyadic", "generic"]), "dir": rng.choice(["inc", "inc", "dec"]),
                    "family": FAMS[(r + r // 10) % len(FAMS)], "layout": rng.choice(["tensor", "tuple", "list"]), "tol": tol})
    return out


def _to(x, dt):
    if isinstance(x, tuple):
        return tuple(c.to(dt) for c in x)
    if isinstance(x, list):
        return [c.to(dt) for c in x]
    return x.to(dt)


def _grid_eps(gd):
    """precision in which t0 + c*h is evaluated: the grid's dtype; python-float x integer tensor gives the default float dtype"""
    return torch.finfo(gd if gd.is_floating_point else torch.get_default_dtype()).eps


def make_pts(kind, gd, rng, direction, P):
    """strictly monotone grid values (python floats or ints) that are exactly representable in the grid's dtype"""
    if kind == "integer":
        nt = rng.choice([2, 3, 4, 5])
        t0 = rng.randint(-3, 3)
        pts = [t0]
        for _ in range(nt - 1):
            pts.append(pts[-1] + rng.choice([1, 1, 2, 3]))
        if direction == "dec":
            pts = [2 * t0 - p for p in pts]
        return pts
    if kind == "dyadic":
        q = rng.choice([4, 8, 16])
        nt = rng.choice([2, 3, 4, 5, 7])
        ks = [rng.randint(-2 * q, 2 * q)]
        for _ in range(nt - 1):
            ks.append(ks[-1] + rng.choice([1, 2, 3, 4, 6]))
        pts = [k / q for k in ks]
        if direction == "dec":
            pts = [2 * pts[0] - p for p in pts]
        return pts
    if kind != "generic":
        raise HarnessBug("tdtype grid kind %s" % kind)
    raw, _ = P.make_grid(rng.choice(["uniform", "ragged", "long", "ragged"]), rng, direction)
    rounded = [float(x) for x in torch.tensor(raw, dtype=torch.float64).to(gd)]
    eps_g = torch.finfo(gd).eps
    tmag = max(1.0, max(abs(x) for x in rounded))
    sgn = 1.0 if direction == "inc" else -1.0
    pts = [rounded[0]]
    for x in rounded[1:]:
        if sgn * (x - pts[-1]) >= 64 * eps_g * tmag:
            pts.append(x)
    if len(pts) < 2:
        pts.append(float(torch.tensor(pts[0] + sgn * 1.0, dtype=torch.float64).to(gd)))
    return pts


def run_case(desc):
    from vf.props import c07 as P
    obs = Obs(desc)
    obs.count("group_tdtype")
    rng = random.Random(desc["seed"])
    tgen = torch.Generator().manual_seed(desc["seed"])
    m, combo = desc["method"], desc["combo"]
    gname, sname = combo.split("_")
    gd, sd = GRID_DT[gname], STATE_DT[sname]
    if m not in FIXED and combo not in COMBOS_ALL:
        raise HarnessBug("combination %s is not generated for the adaptive methods" % combo)
    pts_raw = make_pts(desc["grid"], gd, rng, desc["dir"], P)
    ts = torch.tensor(pts_raw, dtype=gd)
    pts = [float(x) for x in ts]
    if pts != [float(x) for x in pts_raw] or any((b - a) * (pts[1] - pts[0]) <= 0 for a, b in zip(pts[:-1], pts[1:])):
        raise HarnessBug("grid values are not exactly representable / not strictly monotone in %s: %r" % (gd, pts_raw))
    nt = len(pts)
    span = abs(pts[-1] - pts[0])
    famname = desc["family"]
    layout = desc["layout"] if famname in ("harmonic", "damped", "tuplelinear") else "tensor"
    if famname == "tuplelinear" and layout == "tensor":
        layout = "tuple"
    fam = P.make_family(famname, rng, tgen, float(pts[0]), span, layout)
    y0 = _to(fam.y0, sd)
    is_seq = isinstance(y0, (tuple, list))
    wider_grid = gd == torch.float64 and sd == torch.float32
    if not is_seq and y0.dim() == 0 and wider_grid and m in FIXED:
        y0 = y0.reshape(1)       # see module docstring
        obs.count("tdtype_zero_dim_state_reshaped")
    if sd == torch.float64:
        def rule(idx, t, y, *p):
            return fam.fcn(t, y, *p)
    else:
        def rule(idx, t, y, *p):
            return _to(fam.fcn(t, _to(y, torch.float64), *p), sd)
    key = "tdtype:%s:%s:%s" % (combo, m, desc["dir"])
    eps = torch.finfo(sd).eps
    teps = _grid_eps(gd)
    opts = {}
    atol, rtol = 1e-8, 1e-5
    if m not in FIXED:
        tl = P._tol(desc["tol"])
        if tl is not None:
            atol, rtol = float(tl[0]), float(tl[1])
            opts = {"atol": atol, "rtol": rtol}
    y0f = P._flat0(y0)
    online = None
    if m not in FIXED:
        def online(log):
            c = P._Collector()
            P.replay_adaptive(m, log, ts, y0f, None, atol, rtol, c, key, eps, partial=True, teps=teps)
            return bool(c.failed)
    spy, yt = P.run_solver(obs, key, rule, ts, y0, m, fam.params, opts, P.CALL_BUDGET, online)
    obs.nontrivial = True
    if spy.stopped_online:
        P.replay_adaptive(m, spy.log, ts, y0f, None, atol, rtol, obs, key, eps, partial=True, teps=teps)
        return obs.result()
    if yt is None:
        return obs.result()
    # ---- oracle 1: type, shape, dtype of the result; oracle 2: y(ts[0]) = y0
    if is_seq:
        good = isinstance(yt, (tuple, list)) and len(yt) == len(y0) and all(isinstance(a, torch.Tensor) for a in yt)
    else:
        good = isinstance(yt, torch.Tensor)
    if not obs.check(good, "shape:" + key, "result is %s for a %s state" % (type(yt).__name__, type(y0).__name__)):
        return obs.result()
    comps, starts = (list(yt), list(y0)) if is_seq else ([yt], [y0])
    shapes_ok = all(tuple(a.shape) == (nt,) + tuple(b.shape) for a, b in zip(comps, starts))
    if not obs.check(shapes_ok, "shape:" + key, "result shapes %s for nt=%d and state shapes %s" % (
            [tuple(a.shape) for a in comps], nt, [tuple(b.shape) for b in starts])):
        return obs.result()
    dt_ok = all(a.dtype == b.dtype for a, b in zip(comps, starts))
    obs.check(dt_ok, "dtype:" + key, "result dtype %s, state dtype %s (time grid %s)" % (sorted({str(a.dtype) for a in comps}), sd, gd))
    wide = [(a[0].to(torch.float64), b.to(torch.float64)) for a, b in zip(comps, starts)]
    same = all(torch.equal(a, b) for a, b in wide) and (not dt_ok or all(torch.equal(a[0], b) for a, b in zip(comps, starts)))
    obs.check(same, "y0_exact:" + key, "y(ts[0]) differs from y0 by %.3g (state %s, time grid %s)" % (
        max(P._inf(a - b) for a, b in wide), sd, gd))
    obs.count("y0_bitwise_checked")
    # ---- oracle 3: lockstep replay in the state's precision, grid values converted exactly
    ytf = torch.cat([c.reshape(nt, -1).to(y0f.dtype) for c in comps], dim=1)
    if m in FIXED:
        d_grid = (ts[1:] - ts[:-1]).to(torch.float64)
        d_exact = ts.to(torch.float64)[1:] - ts.to(torch.float64)[:-1]
        exact_h = bool(torch.equal(d_grid, d_exact))
        dh_rel = 0.0 if exact_h else torch.finfo(gd).eps
        # times may be handled in the lower of the two precisions (e.g. after converting ts to the state's dtype)
        rp = P.replay_fixed(m, spy.log, ts, ytf, obs, key, eps, teps=max(teps, eps), dh_rel=dh_rel)
        if rp.complete:
            obs.check(rp.worst_t <= T_UNITS, "stage_t:" + key,
                      "stage times differ from t0 + c h by %.3g units of the grid's precision (%s)" % (rp.worst_t, gd))
            P._track(obs, "max_tdtype_t_units", rp.worst_t)
            obs.count("tdtype_fixed_compared")
            if exact_h:
                obs.count("tdtype_fixed_exact_step_size")
            if teps > eps:
                obs.count("tdtype_fixed_narrow_grid")
            if gd.is_floating_point is False:
                obs.count("tdtype_integer_grid")
    else:
        rp = P.replay_adaptive(m, spy.log, ts, y0f, ytf, atol, rtol, obs, key, eps, teps=teps)
        obs.count("steps_accepted", rp.accepted)
        obs.count("steps_rejected", rp.rejected)
        obs.count("steps_zero_length", rp.zero_steps)
        if rp.complete:
            obs.count("tdtype_adaptive_compared")
            if rp.rejected:
                obs.count("tdtype_adaptive_with_rejections")
    P._track(obs, "max_tdtype_lockstep_eps_units", max(rp.worst_y, rp.worst_b))
    obs.note(worst_eps_units=[round(rp.worst_t, 2), round(rp.worst_y, 2), round(rp.worst_b, 2)], grid_dtype=str(gd), state_dtype=str(sd))
    if not rp.complete:
        return obs.result()
    obs.count("histories_replayed")
    obs.count("replayed_%s" % m)
    obs.count("tdtype_compared")
    obs.count("tdtype_%s" % combo)
    if is_seq:
        obs.count("tdtype_sequence_state")
        obs.count("tuple_state_cases")
    # ---- oracle 4 (float64 states, embedded pairs): closed form at the exactly converted grid values
    if m not in FIXED and sd == torch.float64 and dt_ok:
        errs, ymax = P._errors(fam, pts, ytf)
        base, floor = P.acc_bound(m, desc["tol"], ymax, fam.L, span, rp.accepted)
        ratio = max(errs) / (base + floor)
        hL = P.max_hL(rp, fam)
        K = max(P.k_acc(m, hL), K_RK23_RESOLVED if m == "rk23" else 0.0)
        P._track(obs, "tdtype_acc_ratio" if hL <= P.HL_RESOLVED else "tdtype_acc_ratio_coarse", ratio)
        obs.count("tdtype_accuracy_compared")
        obs.check(ratio <= K, "accuracy:%s:%s" % (key, desc["tol"]),
                  "global error %.3e exceeds %.3g x (atol+rtol*|y|)(1+LT)sqrt(steps) = %.3e (family %s, %d steps, largest h*L=%.2f, grid dtype %s)" % (
                      max(errs), K, K * (base + floor), famname, rp.accepted, hL, gd))
    return obs.result()
