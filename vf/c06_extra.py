"""Extra C06 scenarios (group "extra", separated spectra only):

* masks     - A and M are matrix-free operators parametrised by SEVERAL tensors each (A: d, e, u;  M: m0, s) with seeded requires_grad masks
              (incl. "first parameter of M frozen, a later one trainable"): every trainable tensor gets the derivative of the dense generalised
              eigenproblem, every frozen one gets none;
* reassign  - a history on ONE pair of operator objects: decomposition, the objects' tensors are replaced by a new generation, decomposition
              again, and only then one backward pass through both: each decomposition must be differentiated for the operators as they were at its
              call.

Reference: torch.linalg.eigh of L^-1 A L^-H (M = L L^H) built from the same leaves; losses use eigenvalues and the sign-invariant x_i x_i^T.
Added after seeded changes C06-r3-a / C06-r3-b were missed by the single-parameter, fresh-operator workload (DESIGN 6b)."""
import random
import sys

import torch

from vf.common import Obs, sub_seed, WarnLog

DT = torch.float64


def cases(seed, tier):
    out = []
    nm, nr = (150, 60) if tier == "quick" else (1500, 600)
    methods = ["custom_exacteig", "davidson", "callable", "exacteig"]
    for i in range(nm):
        rng = random.Random(sub_seed(seed, "c06xm", i))
        maskA = [rng.random() < 0.6 for _ in range(3)]
        maskM = [rng.random() < 0.5 for _ in range(2)]
        if i % 5 == 0:
            maskM = [False, True]          # first parameter of M frozen, a later one trainable
        if i % 5 == 1:
            maskA = [False, False, True]
        if not any(maskA + maskM):
            maskA[rng.randrange(3)] = True
        if i % 3 == 2 and not any(maskA):
            maskA[rng.randrange(3)] = True       # no M in this case: A must have a trainable tensor
        out.append({"group": "extra", "kind": "masks", "seed": sub_seed(seed, "c06xms", i), "method": methods[i % 4], "withM": i % 3 != 2,
                    "n": rng.choice([4, 6, 8]), "neig": rng.choice([1, 2, 3, None]), "mode": rng.choice(["lowest", "uppest"]),
                    "maskA": [int(x) for x in maskA], "maskM": [int(x) for x in maskM], "bck": rng.choice(["default", "tight", "exactsolve"]),
                    "order": 2 if i % 4 == 0 and i % 3 else 1})
    for i in range(nr):
        rng = random.Random(sub_seed(seed, "c06xr", i))
        out.append({"group": "extra", "kind": "reassign", "seed": sub_seed(seed, "c06xrs", i), "method": methods[i % 3], "withM": i % 2 == 0,
                    "n": rng.choice([4, 6, 7]), "neig": rng.choice([2, 3]), "mode": rng.choice(["lowest", "uppest"]),
                    "maskA": [1, 1, 1], "maskM": [1, 1], "bck": rng.choice(["default", "tight"]), "order": 1, "reassign_m": rng.random() < 0.5})
    # several backward passes through ONE graph (rows of a Jacobian, gradcheck): each pass must give what the first one gives; with explicit
    # degeneracy tolerances in bck_options and a pair of eigenvalues closer than the default threshold but further apart than the caller's
    for i in range(30 if tier == "quick" else 300):
        rng = random.Random(sub_seed(seed, "c06xt", i))
        out.append({"group": "extra", "kind": "twice", "seed": sub_seed(seed, "c06xts", i), "method": ["custom_exacteig", "davidson", "callable"][i % 3],
                    "n": rng.choice([4, 6]), "gap": rng.choice([1e-5, 3e-6, 1e-4]), "level": rng.choice([1.0, 100.0]), "npass": rng.choice([2, 3]),
                    "svd": i % 5 == 4})
    # an operator with a DECOUPLED level (block-diagonal): A - e_i M is then singular EXACTLY in floating point (the direct backward solve takes
    # its fallback branch) while another pair of levels is separated by a small gap (1e-3): tight tolerance
    for i in range(24 if tier == "quick" else 240):
        rng = random.Random(sub_seed(seed, "c06xd", i))
        out.append({"group": "extra", "kind": "decoupled", "seed": sub_seed(seed, "c06xds", i), "method": ["custom_exacteig", "callable"][i % 2],
                    "n": rng.choice([5, 6]), "neig": rng.choice([3, 4]), "mode": rng.choice(["lowest", "uppest"]), "gap": rng.choice([1e-3, 1e-2])})
    # one of the two operators has NO tensor parameter at all (its _getparamnames returns []): the other one's tensors still get their gradients
    for i in range(30 if tier == "quick" else 300):
        rng = random.Random(sub_seed(seed, "c06xn", i))
        out.append({"group": "extra", "kind": "noparam", "seed": sub_seed(seed, "c06xns", i), "method": methods[i % 3], "withM": True, "noparam": ["A", "M"][(i // 3) % 2],
                    "n": rng.choice([4, 6, 8]), "neig": rng.choice([1, 2, 3]), "mode": rng.choice(["lowest", "uppest"]),
                    "maskA": [1, 1, 1], "maskM": [1, 1], "bck": rng.choice(["default", "tight", "exactsolve"]), "order": 2 if i % 4 == 0 else 1})
    return out


def _ops():
    import xitorch

    class AOp(xitorch.LinearOperator):
        """A = diag(d) + tridiag(e) + u u^T, matrix-free"""

        def __init__(self, d, e, u):
            n = d.shape[-1]
            super().__init__(shape=(n, n), is_hermitian=True, dtype=d.dtype, device=d.device)
            self.d, self.e, self.u = d, e, u

        def _mv(self, x):
            y = self.d * x + self.u * (self.u * x).sum(-1, keepdim=True)
            z = torch.zeros_like(x)
            off = self.e * x[..., 1:]
            y = y + torch.cat([off, z[..., :1]], dim=-1) + torch.cat([z[..., :1], self.e * x[..., :-1]], dim=-1)
            return y

        def _getparamnames(self, prefix=""):
            return [prefix + "d", prefix + "e", prefix + "u"]

    class MOp(xitorch.LinearOperator):
        """M = diag(m0) + s K,  K = tridiag(-1, 2, -1) / 4 (positive definite for m0 > 0, s >= 0)"""

        def __init__(self, m0, s):
            n = m0.shape[-1]
            super().__init__(shape=(n, n), is_hermitian=True, dtype=m0.dtype, device=m0.device)
            self.m0, self.s = m0, s

        def _mv(self, x):
            z = torch.zeros_like(x)
            kx = 0.5 * x - 0.25 * torch.cat([x[..., 1:], z[..., :1]], dim=-1) - 0.25 * torch.cat([z[..., :1], x[..., :-1]], dim=-1)
            return self.m0 * x + self.s * kx

        def _getparamnames(self, prefix=""):
            return [prefix + "m0", prefix + "s"]
    return AOp, MOp


def _denseA(d, e, u):
    return torch.diag_embed(d) + torch.diag_embed(e, offset=1) + torch.diag_embed(e, offset=-1) + torch.outer(u, u)


def _denseM(m0, s, n):
    K = 0.5 * torch.eye(n, dtype=DT) - 0.25 * torch.diag_embed(torch.ones(n - 1, dtype=DT), offset=1) - 0.25 * torch.diag_embed(torch.ones(n - 1, dtype=DT), offset=-1)
    return torch.diag_embed(m0) + s * K


def _ref(Ad, Md, idx):
    if Md is None:
        e, X = torch.linalg.eigh(Ad)
    else:
        L = torch.linalg.cholesky(Md)
        Li = torch.linalg.inv(L)
        C = Li @ Ad @ Li.T
        e, Y = torch.linalg.eigh(0.5 * (C + C.T))
        X = Li.T @ Y
    return e[idx], X[:, idx]


def _loss(e, X, cot):
    tot = (cot["c"] * e).sum()
    for i in range(X.shape[-1]):
        P = torch.outer(X[:, i], X[:, i])
        tot = tot + (cot["W"][i] * P).sum() + 0.5 * (cot["Q"][i] * P * P).sum()
    return tot


def _gen(n, tg, withM, maskA, maskM):
    d = (torch.arange(n, dtype=DT) * 1.3 + 0.4 * torch.randn(n, generator=tg, dtype=DT)).requires_grad_(bool(maskA[0]))
    e = (0.3 * torch.randn(n - 1, generator=tg, dtype=DT)).requires_grad_(bool(maskA[1]))
    u = (0.4 * torch.randn(n, generator=tg, dtype=DT)).requires_grad_(bool(maskA[2]))
    m = None
    if withM:
        m0 = (1.0 + torch.rand(n, generator=tg, dtype=DT)).requires_grad_(bool(maskM[0]))
        s = (0.2 + 0.6 * torch.rand((), generator=tg, dtype=DT)).requires_grad_(bool(maskM[1]))
        m = (m0, s)
    return (d, e, u), m


def run_decoupled(desc):
    import xitorch
    from xitorch.linalg import symeig
    obs = Obs(desc)
    tg = torch.Generator().manual_seed(desc["seed"])
    n, neig, gap, method = desc["n"], desc["neig"], desc["gap"], desc["method"]
    m = n - 1
    q, _ = torch.linalg.qr(torch.randn(m, m, generator=tg, dtype=DT))
    vals = torch.tensor([1.0, 1.0 + gap] + [2.5 + 1.3 * k for k in range(m - 2)], dtype=DT)
    K = ((q * vals) @ q.T).clone().requires_grad_()          # the coupled block (leaf)
    lone = torch.tensor(1.7 if desc["mode"] == "lowest" else 3.1, dtype=DT, requires_grad=True)      # the decoupled level

    def full(Kt, lt):
        A = torch.zeros(n, n, dtype=DT)
        A = A + torch.nn.functional.pad(0.5 * (Kt + Kt.T), (0, 1, 0, 1))
        e = torch.zeros(n, n, dtype=DT)
        e[n - 1, n - 1] = 1.0
        return A + lt * e
    if method == "callable":
        import xitorch._impls.linalg.symeig as implmod

        def marg(A, neig, mode, M=None, **unused):
            return implmod.exacteig(A, neig, mode, M)
    else:
        marg = method
    mech = "decoupled:%s:%s" % (method, desc["mode"])
    W = torch.randn(neig, n, n, generator=tg, dtype=DT)
    cvec = torch.randn(neig, generator=tg, dtype=DT)

    def loss(ev, X):
        return (cvec * ev).sum() + sum((W[i] * torch.outer(X[:, i], X[:, i])).sum() for i in range(neig))
    try:
        with WarnLog():
            ev, X = symeig(xitorch.LinearOperator.m(full(K, lone), is_hermitian=True), neig=neig, mode=desc["mode"], method=marg,
                           bck_options={"method": "exactsolve", "degen_atol": 1e-9, "degen_rtol": 1e-9})
            g = torch.autograd.grad(loss(ev, X), (K, lone))
    except Exception as e:
        obs.exc_violation("extra:call:" + mech, e)
        obs.nontrivial = True
        return obs.result()
    K2, l2 = K.detach().clone().requires_grad_(), lone.detach().clone().requires_grad_()
    er, Xr = torch.linalg.eigh(full(K2, l2))
    idx = list(range(neig)) if desc["mode"] == "lowest" else list(range(n - neig, n))
    gr = torch.autograd.grad(loss(er[idx], Xr[:, idx]), (K2, l2))
    for nm, a, b in zip(("K", "lone"), g, gr):
        err = float((a - b).abs().max())
        sc = 1.0 + float(b.abs().max())
        obs.check(err <= 1e-8 / gap * 1e-2 * sc, "extra:grad1:%s:%s" % (nm, mech),
                  "gradient w.r.t. %s (decoupled level: the shifted matrix is exactly singular; gap %.0e elsewhere) differs from the dense reference by %.3e (scale %.2e)" % (nm, gap, err, sc))
    obs.count("extra_decoupled_compared")
    obs.nontrivial = True
    return obs.result()


def run_twice(desc):
    import xitorch
    from xitorch.linalg import symeig, svd
    obs = Obs(desc)
    tg = torch.Generator().manual_seed(desc["seed"])
    n, gap, level, method = desc["n"], desc["gap"], desc["level"], desc["method"]
    q, _ = torch.linalg.qr(torch.randn(n, n, generator=tg, dtype=DT))
    vals = torch.tensor([level, level + gap] + [level + 3.0 + 2.0 * k for k in range(n - 2)], dtype=DT)
    PA = ((q * vals) @ q.T).clone().requires_grad_()
    if method == "callable":
        import xitorch._impls.linalg.symeig as implmod

        def marg(A, neig, mode, M=None, **unused):
            return implmod.exacteig(A, neig, mode, M)
        fopts = {}
    elif method == "davidson":
        marg, fopts = "davidson", {"min_eps": 1e-13, "max_niter": 3000}
    else:
        marg, fopts = method, {}
    bck = {"degen_atol": 1e-9, "degen_rtol": 1e-9, "method": "exactsolve"}
    mech = "twice:%s:%s" % ("svd" if desc["svd"] else "symeig", method)
    W = torch.randn(2, n, n, generator=tg, dtype=DT)
    try:
        with WarnLog():
            Aop = xitorch.LinearOperator.m(0.5 * (PA + PA.T), is_hermitian=True)
            if desc["svd"]:
                U, S, Vh = svd(Aop, 2, mode="lowest", method=marg, bck_options=dict(bck), **fopts)
                outs = [(W[i] * torch.outer(U[:, i], Vh[i, :]) * S[i]).sum() for i in range(2)]
            else:
                ev, X = symeig(Aop, neig=2, mode="lowest", method=marg, bck_options=dict(bck), **fopts)
                outs = [(W[i] * torch.outer(X[:, i], X[:, i])).sum() for i in range(2)]
            L = outs[0] + 0.7 * outs[1]
            gs = [torch.autograd.grad(L, PA, retain_graph=True)[0] for _ in range(desc["npass"])]
            rows = [torch.autograd.grad(o, PA, retain_graph=True)[0] for o in outs]          # a Jacobian assembled row by row
    except Exception as e:
        obs.exc_violation("extra:call:" + mech, e)
        obs.nontrivial = True
        return obs.result()
    sc = 1.0 + float(gs[0].abs().max())
    for k in range(1, len(gs)):
        err = float((gs[k] - gs[0]).abs().max())
        obs.check(err <= 1e-9 * sc, "extra:repeat_backward:" + mech, "backward pass number %d through the same graph differs from the first one by %.3e (scale %.2e; "
                  "eigenvalue gap %.0e, bck_options degen tolerances 1e-9)" % (k + 1, err, sc, gap))
    err = float((rows[0] + 0.7 * rows[1] - gs[0]).abs().max())
    obs.check(err <= 1e-7 * sc, "extra:rows_vs_total:" + mech, "the gradient assembled from one backward pass per output differs from the single pass by %.3e (scale %.2e)" % (err, sc))
    # against the dense reference (the pair is NOT degenerate at the caller's tolerances)
    PA2 = PA.detach().clone().requires_grad_()
    er, Xr = torch.linalg.eigh(0.5 * (PA2 + PA2.T))
    if desc["svd"]:
        # singular values of a positive definite symmetric matrix are its eigenvalues, u = v = x
        Lr = sum(c * (W[i] * torch.outer(Xr[:, i], Xr[:, i]) * er[i]).sum() for i, c in ((0, 1.0), (1, 0.7)))
    else:
        Lr = sum(c * (W[i] * torch.outer(Xr[:, i], Xr[:, i])).sum() for i, c in ((0, 1.0), (1, 0.7)))
    gr, = torch.autograd.grad(Lr, PA2)
    # the eigenvectors of a pair at distance `gap` are only determined to (forward accuracy) / gap, and the gradient carries that error relative
    # to its own 1/gap scale: 1e-9 / gap for the LAPACK-based methods, ten times that for davidson (min_eps 1e-13 on a level of 100); a
    # gradient that treats the pair as degenerate is off by O(1) relative
    tol = max(1e-9 / gap, 1e-5) * (10.0 if method == "davidson" else 1.0)
    err = float((gs[0] - gr).abs().max())
    obs.check(err <= tol * (1.0 + float(gr.abs().max())), "extra:grad1:" + mech, "gradient at a near-degenerate (gap %.0e) but separated pair differs from the dense "
              "reference by %.3e (scale %.2e)" % (gap, err, 1.0 + float(gr.abs().max())))
    obs.count("extra_repeated_backward_compared")
    obs.nontrivial = True
    return obs.result()


def run_case(desc):
    if desc.get("kind") == "twice":
        return run_twice(desc)
    if desc.get("kind") == "decoupled":
        return run_decoupled(desc)
    from xitorch.linalg import symeig
    obs = Obs(desc)
    tg = torch.Generator().manual_seed(desc["seed"])
    n, withM, method = desc["n"], desc["withM"], desc["method"]
    neig = desc["neig"] if desc["neig"] is not None else n
    neig = min(neig, n)
    idx = list(range(neig)) if desc["mode"] == "lowest" else list(range(n - neig, n))
    AOp, MOp = _ops()
    if desc.get("noparam") == "A":
        desc = dict(desc, maskA=[0, 0, 0])

        class AOp(AOp):                                   # noqa: F811
            def _getparamnames(self, prefix=""):
                return []
    elif desc.get("noparam") == "M":
        desc = dict(desc, maskM=[0, 0])

        class MOp(MOp):                                   # noqa: F811
            def _getparamnames(self, prefix=""):
                return []
    ngen = 2 if desc["kind"] == "reassign" else 1
    gens = [_gen(n, tg, withM, desc["maskA"], desc["maskM"]) for _ in range(ngen)]
    # separated spectra only
    for (a, m) in gens:
        with torch.no_grad():
            ev = _ref(_denseA(*a), _denseM(*m, n) if m else None, list(range(n)))[0]
        if float((ev[1:] - ev[:-1]).min()) < 0.15:
            obs.skip("generator: eigenvalue gap below 0.15")
            return obs.result()
    if method == "callable":
        implmod = sys.modules.get("xitorch._impls.linalg.symeig")
        if implmod is None:
            import xitorch._impls.linalg.symeig as implmod     # noqa

        def my_eig(A, neig, mode, M=None, **unused):
            return implmod.exacteig(A, neig, mode, M)
        marg, fopts = my_eig, {}
    elif method == "davidson":
        marg, fopts = "davidson", {"min_eps": 1e-12, "max_niter": 2000}
    else:
        marg, fopts = method, {}
    bck = {"default": {}, "tight": {"method": "bicgstab", "rtol": 1e-11, "atol": 1e-13, "max_niter": 40 * n}, "exactsolve": {"method": "exactsolve"}}[desc["bck"]]
    mech = "%s:%s:%s:%s" % (desc["kind"], method, "M" if withM else "noM", desc["bck"])
    cots = [{"c": torch.randn(neig, generator=tg, dtype=DT), "W": torch.randn(neig, n, n, generator=tg, dtype=DT),
             "Q": torch.randn(neig, n, n, generator=tg, dtype=DT)} for _ in range(ngen)]
    leaves, names = [], []
    for gi, (a, m) in enumerate(gens):
        for nm, t in zip(("A.d", "A.e", "A.u"), a):
            leaves.append(t)
            names.append("%s#%d" % (nm, gi))
        if m:
            for nm, t in zip(("M.m0", "M.s"), m):
                leaves.append(t)
                names.append("%s#%d" % (nm, gi))
    req = [t for t in leaves if t.requires_grad]
    second = desc["order"] == 2
    with WarnLog() as wl:
        try:
            opA = AOp(*gens[0][0])
            opM = MOp(*gens[0][1]) if withM else None
            L = 0.0
            for gi, (a, m) in enumerate(gens):
                if gi > 0:
                    opA.d, opA.e, opA.u = a                       # the same objects, new tensors
                    if withM and desc.get("reassign_m", True):
                        opM.m0, opM.s = m
                    elif withM:
                        gens[gi] = (a, gens[0][1])
                ev, X = symeig(opA, neig=neig, mode=desc["mode"], M=opM, method=marg, bck_options=dict(bck), **fopts)
                L = L + _loss(ev, X, cots[gi])
            g1 = torch.autograd.grad(L, req, create_graph=second, allow_unused=True)
            g2 = None
            if second:
                D = [torch.randn(t.shape, generator=tg, dtype=DT) for t in req]
                S = sum((gi_ * d_).sum() for gi_, d_ in zip(g1, D) if gi_ is not None and gi_.requires_grad)
                g2 = torch.autograd.grad(S, req, allow_unused=True) if isinstance(S, torch.Tensor) and S.requires_grad else None
        except Exception as e:
            obs.exc_violation("extra:call:" + mech, e)
            obs.nontrivial = True
            return obs.result()
    if wl.convergence:
        obs.count("extra_warned_not_compared")
        return obs.result()
    # ---- reference
    l2 = [t.detach().clone().requires_grad_(t.requires_grad) for t in leaves]
    it = iter(l2)
    Lr = 0.0
    first_m = None
    for gi, (a, m) in enumerate(gens):
        a2 = (next(it), next(it), next(it))
        m2 = (next(it), next(it)) if m else None
        if gi == 0:
            first_m = m2
        if withM and gi > 0 and not desc.get("reassign_m", True):
            m2 = first_m
        er, Xr = _ref(_denseA(*a2), _denseM(*m2, n) if m2 else None, idx)
        Lr = Lr + _loss(er, Xr, cots[gi])
    req2 = [t for t in l2 if t.requires_grad]
    r1 = torch.autograd.grad(Lr, req2, create_graph=second, allow_unused=True)
    verr = abs(float(L.detach()) - float(Lr.detach()))
    obs.check(verr <= 1e-7 * (1 + abs(float(Lr.detach()))), "extra:value:" + mech, "loss on the returned pairs differs from the dense reference by %.3e" % verr)
    tol = 5e-6 if (method == "davidson" or desc["bck"] == "default") else 1e-7
    sc = max([1.0] + [float(r.abs().max()) for r in r1 if r is not None])
    rnames = [nm for nm, t in zip(names, leaves) if t.requires_grad]
    for nm, g, r, t in zip(rnames, g1, r1, req):
        g = torch.zeros_like(t) if g is None else g.detach()
        r = torch.zeros_like(t) if r is None else r.detach()
        err = float((g - r).abs().max())
        role = nm.split("#")[0] + ("_old" if desc["kind"] == "reassign" and nm.endswith("#0") else "")
        obs.check(err <= tol * sc, "extra:grad1:%s:%s" % (role, mech), "first-order gradient w.r.t. %s differs from the dense generalised eigenproblem's by %.3e (scale %.2e; "
                  "masks A=%s M=%s)" % (nm, err, sc, desc["maskA"], desc["maskM"]))
    obs.count("extra_first_order_compared")
    if desc.get("noparam"):
        obs.count("extra_noparam_operator_compared")
    if desc["maskM"] == [0, 1] and withM:
        obs.count("extra_first_M_param_frozen")
    if second and g2 is not None:
        S2 = sum((gi_ * d_).sum() for gi_, d_ in zip(r1, D) if gi_ is not None and gi_.requires_grad)
        r2 = torch.autograd.grad(S2, req2, allow_unused=True)
        sc2 = max([1.0] + [float(r.abs().max()) for r in r2 if r is not None])
        for nm, g, r, t in zip(rnames, g2, r2, req):
            g = torch.zeros_like(t) if g is None else g
            r = torch.zeros_like(t) if r is None else r
            err = float((g - r).abs().max())
            obs.check(err <= 100 * tol * sc2, "extra:grad2:%s:%s" % (nm.split("#")[0], mech), "second-order gradient w.r.t. %s differs from the reference by %.3e (scale %.2e)" % (nm, err, sc2))
        obs.count("extra_second_order_compared")
    obs.nontrivial = True
    return obs.result()
