"""One mathematical function, many representations, every functional.

A *core* is a plain-torch function ``core(*lead, a, b, W, s)`` of some leading arguments (the unknown / the state /
the abscissa), three tensors and one python float.  ``build(rep, core, nlead, eff, s)`` returns the same function in one of
the forms xitorch accepts (pure function with explicit parameters, method of an nn.Module, method of an EditableModule,
sibling functions, scripted function) together with the explicit parameter tuple and the objects holding the rest, so that
``fcn(*lead, *params) == core(*lead, a, b, W, s)`` always.  ``FUNCTIONALS`` run such a function through the public
functionals.  Used by the monitors of C09 (representation independence), C10 (objects left untouched, crash points) and C19
(object census)."""
import math

import torch

LEAF_NAMES = ("a0", "b0", "W0")


# ------------------------------------------------------------------------------------------------ leaves
def make_leaves(d, tgen, dtype=torch.float64, rg=(True, True, True), as_parameter=True):
    a0 = torch.randn(d, generator=tgen, dtype=dtype) * 0.4
    b0 = torch.randn(d, generator=tgen, dtype=dtype) * 0.4
    W0 = torch.randn(d, d, generator=tgen, dtype=dtype) * (0.5 / math.sqrt(d))
    out = {}
    for name, t, r in zip(LEAF_NAMES, (a0, b0, W0), rg):
        out[name] = torch.nn.Parameter(t, requires_grad=bool(r)) if as_parameter else t.requires_grad_(bool(r))
    return out


def clone_leaves(leaves):
    """fresh leaf objects with the same values and requires_grad flags"""
    return {k: torch.nn.Parameter(v.detach().clone(), requires_grad=v.requires_grad) for k, v in leaves.items()}


def effective(leaves, derived):
    """the tensors the function actually uses; `derived` makes them non-leaf functions of the leaves"""
    a0, b0, W0 = (leaves[k] for k in LEAF_NAMES)
    if not derived:
        return a0, b0, W0
    return 1.25 * a0 - 0.05, b0 + 0.25 * b0 * b0, 0.6 * (W0 + W0.transpose(-2, -1)) + 0.1 * W0


# ------------------------------------------------------------------------------------------------ representations
NN_REPS = ("nn_dup", "nn_memalias", "nn_flat", "nn_nested", "nn_method_mixed", "nn_tied", "em_nn", "em_nn_reordered", "sib_multi_nn", "sib_single_nn",
           "sib_multi_plainmid", "sib_multi_plainfirst")
REPS = ("pure", "pure_nontensor", "pure_dup", "nn_dup", "nn_memalias", "em_memalias", "jit", "nn_flat", "nn_nested", "nn_method_mixed", "nn_tied",
        "em_flat", "em_container", "em_alias", "em_nn", "em_nn_reordered", "em_mixed",
        "sib_single", "sib_single_nn", "sib_multi", "sib_multi_shared", "sib_multi_nn", "sib_multi_plainmid", "sib_multi_plainfirst", "dual_nn_em", "em_infmask", "em_alias_pairs", "em_infbound")


_SCRIPTED = {}


class Built(object):
    def __init__(self, fcn, params, objs, tensor_param_idx):
        self.fcn = fcn                    # what is handed to the functional
        self.params = tuple(params)       # explicit parameters handed to the functional
        self.objs = objs                  # [(name, object)] holding the remaining tensors (to be snapshotted)
        self.tensor_param_idx = tensor_param_idx


def build(rep, core, nlead, eff, s):
    import xitorch
    a, b, W = eff

    def lead_rest(args):
        return args[:nlead], args[nlead:]

    if rep == "pure":
        def f(*args):
            lead, (pa, pb, pW) = lead_rest(args)
            return core(*lead, pa, pb, pW, s)
        return Built(f, (a, b, W), [], (0, 1, 2))

    if rep == "pure_nontensor":
        # non-tensor and NON-DIFFERENTIABLE tensor parameters (integer / bool dtype, float without grad) interleaved with the tensors
        def f(*args):
            lead, (pidx, pa, ps, none, pb, flag, pmask, pW, pconst) = lead_rest(args)
            assert none is None and flag == "flag" and pidx.dtype == torch.int64 and pmask.dtype == torch.bool
            return core(*lead, pa, pb, pW, ps) + 0.0 * pconst.sum()
        return Built(f, (torch.arange(3), a, s, None, b, "flag", torch.tensor([True, False]), W, torch.ones(2, dtype=a.dtype)), [], (1, 4, 7))

    if rep == "pure_dup":
        # one tensor object supplied in two parameter slots
        def f(*args):
            lead, (pa, pb, pW, pa2) = lead_rest(args)
            return core(*lead, 0.25 * pa + 0.75 * pa2, pb, pW, s)
        return Built(f, (a, b, W, a), [], (0, 1, 2, 3))

    if rep == "nn_dup":
        # a module parameter that is also passed explicitly
        class M(torch.nn.Module):
            def __init__(self, a, b, W):
                super().__init__()
                self.a, self.b, self.W = a, b, W

            def forward(self, *args):
                lead, (pa2, pW2) = lead_rest(args)
                return core(*lead, 0.25 * self.a + 0.75 * pa2, self.b, 0.5 * (self.W + pW2), s)
        m = M(a, b, W)
        return Built(m.forward, (a, W), [("m", m)], (0, 1))

    if rep == "nn_memalias":
        # the module also holds a frozen Parameter that is a DISTINCT object sharing memory, shape and strides with `a`
        class M(torch.nn.Module):
            def __init__(self, a, b, W):
                super().__init__()
                self.a = a
                self.a_frozen_view = torch.nn.Parameter(a.detach(), requires_grad=False)
                self.b, self.W = b, W

            def forward(self, *lead):
                return core(*lead, self.a + 0.0 * self.a_frozen_view, self.b, self.W, s)
        m = M(a, b, W)
        return Built(m.forward, (), [("m", m)], ())

    if rep == "em_memalias":
        class E(xitorch.EditableModule):
            def __init__(self, a, b, W):
                self.a, self.b, self.W = a, b, W
                self.views = [a.detach(), W.detach().view(W.shape)]      # distinct objects, same memory / shape / strides

            def h(self, *lead):
                return core(*lead, self.a + 0.0 * self.views[0], self.b, self.W + 0.0 * self.views[1], s)

            def getparamnames(self, methodname, prefix=""):
                if methodname == "h":
                    return [prefix + "views[0]", prefix + "a", prefix + "b", prefix + "W", prefix + "views[1]"]
                raise KeyError(methodname)
        e = E(a, b, W)
        return Built(e.h, (), [("e", e)], ())

    if rep == "jit":
        if core not in _SCRIPTED:
            _SCRIPTED[core] = torch.jit.script(core)
        return Built(_SCRIPTED[core], (a, b, W, s), [], (0, 1, 2))

    if rep == "nn_flat":
        class M(torch.nn.Module):
            def __init__(self, a, b, W):
                super().__init__()
                self.a, self.b, self.W = a, b, W

            def forward(self, *lead):
                return core(*lead, self.a, self.b, self.W, s)
        m = M(a, b, W)
        return Built(m.forward, (), [("m", m)], ())

    if rep == "nn_nested":
        class Inner(torch.nn.Module):
            def __init__(self, a, b, W):
                super().__init__()
                self.b, self.W = b, W

        class Outer(torch.nn.Module):
            def __init__(self, a, b, W):
                super().__init__()
                self.inner = Inner(a, b, W)
                self.a = a

            def forward(self, *lead):
                return core(*lead, self.a, self.inner.b, self.inner.W, s)
        m = Outer(a, b, W)
        return Built(m.forward, (), [("m", m)], ())

    if rep == "nn_method_mixed":
        class M(torch.nn.Module):
            def __init__(self, a, b, W):
                super().__init__()
                self.W = W
                self.a = a

            def h(self, *args):
                lead, (ps, pb) = lead_rest(args)
                return core(*lead, self.a, pb, self.W, ps)
        m = M(a, b, W)
        return Built(m.h, (s, b), [("m", m)], (1,))

    if rep == "nn_tied":
        class M(torch.nn.Module):
            def __init__(self, a, b, W):
                super().__init__()
                self.a, self.b, self.W = a, b, W
                self.a_tied = self.a

            def forward(self, *lead):
                return core(*lead, 0.25 * self.a + 0.75 * self.a_tied, self.b, self.W, s)
        m = M(a, b, W)
        return Built(m.forward, (), [("m", m)], ())

    if rep == "em_flat":
        class E(xitorch.EditableModule):
            def __init__(self, a, b, W):
                self.a, self.b, self.W = a, b, W
                self.s = s

            def h(self, *lead):
                return core(*lead, self.a, self.b, self.W, self.s)

            def getparamnames(self, methodname, prefix=""):
                if methodname == "h":
                    return [prefix + "a", prefix + "b", prefix + "W"]
                raise KeyError(methodname)
        e = E(a, b, W)
        return Built(e.h, (), [("e", e)], ())

    if rep == "dual_nn_em":
        # a class that is BOTH a torch.nn.Module and an EditableModule: the tensors named by getparamnames count (registered Parameter or not,
        # attribute or held in a container)
        class D(torch.nn.Module, xitorch.EditableModule):
            def __init__(self, a, b, W):
                super().__init__()
                self.a = a
                self.held = {"b": b}
                self.lst = [W]

            def h(self, *lead):
                return core(*lead, self.a, self.held["b"], self.lst[0], s)

            def getparamnames(self, methodname, prefix=""):
                if methodname == "h":
                    return [prefix + "a", prefix + "held['b']", prefix + "lst[0]"]
                raise KeyError(methodname)
        e = D(a, b, W)
        return Built(e.h, (), [("e", e)], ())

    if rep == "em_infmask":
        # the object also holds a tensor without grad that contains -inf (an additive mask: exp(mask) = 0), listed among its parameters
        class E(xitorch.EditableModule):
            def __init__(self, a, b, W):
                self.a, self.b, self.W = a, b, W
                self.mask = torch.full((2,), -float("inf"), dtype=a.dtype)

            def h(self, *lead):
                return core(*lead, self.a, self.b, self.W, s) + torch.exp(self.mask).sum()

            def getparamnames(self, methodname, prefix=""):
                if methodname == "h":
                    return [prefix + "mask", prefix + "a", prefix + "b", prefix + "W"]
                raise KeyError(methodname)
        e = E(a, b, W)
        return Built(e.h, (), [("e", e)], ())

    if rep == "em_alias_pairs":
        # a list of slots in which shared tensors come in pairs: [a, a, b, b, W] (a shared tensor first appears after another one was repeated)
        class E(xitorch.EditableModule):
            def __init__(self, a, b, W):
                self.ws = [a, a, b, b, W]

            def h(self, *lead):
                return core(*lead, 0.25 * self.ws[0] + 0.75 * self.ws[1], 0.5 * (self.ws[2] + self.ws[3]), self.ws[4], s)

            def getparamnames(self, methodname, prefix=""):
                if methodname == "h":
                    return [prefix + "ws[%d]" % i for i in range(5)]
                raise KeyError(methodname)
        e = E(a, b, W)
        return Built(e.h, (), [("e", e)], ())

    if rep == "em_infbound":
        # a DIFFERENTIABLE tensor with infinite entries that the function handles gracefully (inactive upper bounds)
        class E(xitorch.EditableModule):
            def __init__(self, a, b, W):
                self.a, self.b, self.W = a, b, W
                self.ub = torch.full(tuple(a.shape), float("inf"), dtype=a.dtype).requires_grad_()

            def h(self, *lead):
                return core(*lead, torch.minimum(self.a, self.ub), self.b, self.W, s)

            def getparamnames(self, methodname, prefix=""):
                if methodname == "h":
                    return [prefix + "ub", prefix + "a", prefix + "b", prefix + "W"]
                raise KeyError(methodname)
        e = E(a, b, W)
        return Built(e.h, (), [("e", e)], ())

    if rep == "em_container":
        class Sub(object):
            def __init__(self, a, b, W):
                self.W = W
                self.note = "sub"

        class E(xitorch.EditableModule):
            def __init__(self, a, b, W):
                self.lst = [1.0, a, "x"]
                self.dct = {"k": 2, "b": b}
                self.sub = Sub(a, b, W)

            def h(self, *lead):
                return core(*lead, self.lst[1], self.dct["b"], self.sub.W, s)

            def getparamnames(self, methodname, prefix=""):
                if methodname == "h":
                    return [prefix + "sub.W", prefix + "lst[1]", prefix + "dct['b']"]
                raise KeyError(methodname)
        e = E(a, b, W)
        return Built(e.h, (), [("e", e)], ())

    if rep == "em_alias":
        class E(xitorch.EditableModule):
            def __init__(self, a, b, W):
                self.a, self.b, self.W = a, b, W
                self.a_alias = a
                self.pair = [a, b]

            def h(self, *lead):
                return core(*lead, 0.25 * self.a + 0.5 * self.a_alias + 0.25 * self.pair[0],
                            0.5 * (self.b + self.pair[1]), self.W, s)

            def getparamnames(self, methodname, prefix=""):
                if methodname == "h":
                    return [prefix + "a", prefix + "pair[1]", prefix + "b", prefix + "a_alias", prefix + "W", prefix + "pair[0]"]
                raise KeyError(methodname)
        e = E(a, b, W)
        return Built(e.h, (), [("e", e)], ())

    if rep in ("em_nn", "em_nn_reordered"):
        class Mod(torch.nn.Module):
            def __init__(self, a, b, W):
                super().__init__()
                self.a, self.b, self.W = a, b, W

        order = ["mod.a", "mod.b", "mod.W"] if rep == "em_nn" else ["mod.W", "mod.a", "mod.b"]

        class E(xitorch.EditableModule):
            def __init__(self, a, b, W):
                self.mod = Mod(a, b, W)

            def h(self, *lead):
                return core(*lead, self.mod.a, self.mod.b, self.mod.W, s)

            def getparamnames(self, methodname, prefix=""):
                if methodname == "h":
                    return [prefix + n for n in order]
                raise KeyError(methodname)
        e = E(a, b, W)
        return Built(e.h, (), [("e", e), ("e.mod", e.mod)], ())

    if rep == "em_mixed":
        class E(xitorch.EditableModule):
            def __init__(self, a, b, W):
                self.W = W

            def h(self, *args):
                lead, (pa, ps, pb) = lead_rest(args)
                return core(*lead, pa, pb, self.W, ps)

            def getparamnames(self, methodname, prefix=""):
                if methodname == "h":
                    return [prefix + "W"]
                raise KeyError(methodname)
        e = E(a, b, W)
        return Built(e.h, (a, s, b), [("e", e)], (0, 2))

    if rep == "sib_single":
        inner = build("em_flat", core, nlead, eff, s)

        @xitorch.make_sibling(inner.fcn)
        def f(*lead):
            return inner.fcn(*lead) * 1.0
        return Built(f, (), inner.objs, ())

    if rep == "sib_single_nn":
        inner = build("nn_nested", core, nlead, eff, s)

        @xitorch.make_sibling(inner.fcn)
        def f(*lead):
            return inner.fcn(*lead) * 1.0
        return Built(f, (), inner.objs, ())

    if rep in ("sib_multi", "sib_multi_shared", "sib_multi_nn", "sib_multi_plainmid", "sib_multi_plainfirst"):
        class E1(xitorch.EditableModule):
            def __init__(self, a, b, W):
                self.a = a

            def geta(self):
                return self.a

            def getparamnames(self, methodname, prefix=""):
                if methodname == "geta":
                    return [prefix + "a"]
                raise KeyError(methodname)

        if rep in ("sib_multi_nn", "sib_multi_plainmid", "sib_multi_plainfirst"):
            class E2(torch.nn.Module):
                def __init__(self, a, b, W):
                    super().__init__()
                    self.b, self.W = b, W

                def getbw(self):
                    return self.b, self.W
        else:
            shared = rep == "sib_multi_shared"

            class E2(xitorch.EditableModule):
                def __init__(self, a, b, W):
                    self.b, self.W = b, W
                    if shared:
                        self.a = a

                def getbw(self):
                    return self.b, self.W

                def getparamnames(self, methodname, prefix=""):
                    if methodname == "getbw":
                        return [prefix + "b", prefix + "W"] + ([prefix + "a"] if shared else [])
                    raise KeyError(methodname)
        e1, e2 = E1(a, b, W), E2(a, b, W)

        def stateless(x):          # a plain function among the siblings: it holds no tensors
            return x * 1.0
        sibs = {"sib_multi_plainmid": (e1.geta, stateless, e2.getbw),
                "sib_multi_plainfirst": (stateless, e1.geta, e2.getbw)}.get(rep, (e1.geta, e2.getbw))

        @xitorch.make_sibling(*sibs)
        def f(*lead):
            pb, pW = e2.getbw()
            pa = e1.geta()
            if rep == "sib_multi_shared":
                pa = 0.5 * (pa + e2.a)
            return core(*lead, pa, pb, pW, s)
        return Built(f, (), [("e1", e1), ("e2", e2)], ())

    raise ValueError(rep)


# ------------------------------------------------------------------------------------------------ cores and functionals
def core_root(y, a, b, W, s: float):
    return y - s * torch.tanh(torch.matmul(W, y) + b) - a


def core_equil(y, a, b, W, s: float):
    return s * torch.tanh(torch.matmul(W, y) + b) + a


def core_min(y, a, b, W, s: float):
    r = torch.matmul(W, y) + b
    return 0.5 * ((y - a) ** 2).sum() + 0.25 * s * (r ** 4).sum()


def core_ivp(t, y, a, b, W, s: float):
    return -s * y + 0.3 * torch.tanh(torch.matmul(W, y) + b) + a * torch.cos(t)


def core_quad(x, a, b, W, s: float):
    return a * torch.sin(x * b) + s * x * torch.matmul(W, a)


def core_mcf(x, a, b, W, s: float):
    return (a * x) ** 2 + s * torch.tanh(torch.matmul(W, x) + b)


def core_logp(x, a, b, W, s: float):
    return -0.5 * (((x - a) ** 2) * (1.0 + b * b)).sum() - 0.1 * s * torch.dot(x, torch.matmul(W, x)) ** 2


class Functional(object):
    """name, core, number of leading arguments, and how to call the real functional"""

    def __init__(self, name, core, nlead, run, iterative=False):
        self.name, self.core, self.nlead, self.run, self.iterative = name, core, nlead, run, iterative


def _run_rootfinder(method, more=None):
    def run(built, d, dtype, extra):
        from xitorch.optimize import rootfinder
        y0 = torch.zeros(d, dtype=dtype)
        opts = dict(f_tol=1e-11, x_tol=1e-11, maxiter=200) if method != "default" else {}
        opts.update(more or {})
        kw = {} if method == "default" else {"method": method}
        if extra and extra.get("bck_options"):
            kw["bck_options"] = extra["bck_options"]
        return rootfinder(built.fcn, y0, params=built.params, **kw, **opts)
    return run


def _run_equilibrium(method, more=None):
    def run(built, d, dtype, extra):
        from xitorch.optimize import equilibrium
        y0 = torch.zeros(d, dtype=dtype)
        kw = {"bck_options": extra["bck_options"]} if extra and extra.get("bck_options") else {}
        return equilibrium(built.fcn, y0, params=built.params, method=method, f_tol=1e-11, x_tol=1e-11, maxiter=300, **(more or {}), **kw)
    return run


def _run_minimize(method):
    def run(built, d, dtype, extra):
        from xitorch.optimize import minimize
        y0 = torch.zeros(d, dtype=dtype)
        bkw = {"bck_options": extra["bck_options"]} if extra and extra.get("bck_options") else {}
        if method == "gd":
            return minimize(built.fcn, y0, params=built.params, method="gd", step=0.2, gamma=0.5, maxiter=2000, f_rtol=0.0,
                            x_rtol=0.0, f_tol=0.0, x_tol=1e-12, **bkw)
        return minimize(built.fcn, y0, params=built.params, method=method, f_tol=1e-11, x_tol=1e-11, maxiter=200, **bkw)
    return run


def _run_ivp(method):
    def run(built, d, dtype, extra):
        from xitorch.integrate import solve_ivp
        ts = torch.linspace(0.0, 0.8, 4, dtype=dtype)
        y0 = torch.linspace(-0.5, 0.5, d, dtype=dtype)
        opts = dict(atol=1e-9, rtol=1e-8) if method in ("rk45", "rk23") else {}
        return solve_ivp(built.fcn, ts, y0, params=built.params, method=method, **opts)
    return run


def _run_quad(n):
    def run(built, d, dtype, extra):
        from xitorch.integrate import quad
        xl = torch.tensor(-0.3, dtype=dtype)
        xu = torch.tensor(1.1, dtype=dtype)
        return quad(built.fcn, xl, xu, params=built.params, n=n)
    return run


def _run_jac(which):
    def run(built, d, dtype, extra):
        from xitorch.grad import jac
        tg = torch.Generator().manual_seed(1234 + d)
        y = (torch.randn(d, generator=tg, dtype=dtype) * 0.5).requires_grad_()
        v = torch.randn(2, d, generator=tg, dtype=dtype)
        J = jac(built.fcn, (y, *built.params), idxs=0)
        if which == "mv":
            return J.mv(v)
        if which == "rmv":
            return J.rmv(v)
        return J.fullmatrix()
    return run


def _run_hess(which):
    def run(built, d, dtype, extra):
        from xitorch.grad import hess
        tg = torch.Generator().manual_seed(4321 + d)
        y = (torch.randn(d, generator=tg, dtype=dtype) * 0.5).requires_grad_()
        v = torch.randn(2, d, generator=tg, dtype=dtype)
        H = hess(built.fcn, (y, *built.params), idxs=0)
        if which == "mv":
            return H.mv(v)
        return H.fullmatrix()
    return run


def _run_opsolve(which, method):
    """the Jacobian / Hessian operator of the function used as A in solve (its parameters are substituted in solve's backward)"""
    def run(built, d, dtype, extra):
        from xitorch.grad import jac, hess
        from xitorch.linalg import solve
        tg = torch.Generator().manual_seed(977 + d)
        y = (torch.randn(d, generator=tg, dtype=dtype) * 0.3).requires_grad_()
        B = torch.randn(d, 2, generator=tg, dtype=dtype)
        A = (jac if which == "jac" else hess)(built.fcn, (y, *built.params), idxs=0)
        return solve(A, B, method=method, rtol=1e-11, atol=1e-13, bck_options={"rtol": 1e-11, "atol": 1e-30})
    return run


FUNCTIONALS = {
    "rootfinder:broyden1": Functional("rootfinder:broyden1", core_root, 1, _run_rootfinder("broyden1"), True),
    "rootfinder:newton": Functional("rootfinder:newton", core_root, 1, _run_rootfinder("newton"), True),
    "rootfinder:default": Functional("rootfinder:default", core_root, 1, _run_rootfinder("default"), True),
    # method options as a dimension of their own (each option can switch on code that is otherwise never run)
    "rootfinder:broyden1:max_rank": Functional("rootfinder:broyden1:max_rank", core_root, 1, _run_rootfinder("broyden1", {"max_rank": 3}), True),
    "rootfinder:broyden2:max_rank_nols": Functional("rootfinder:broyden2:max_rank_nols", core_root, 1,
                                                   _run_rootfinder("broyden2", {"max_rank": 2, "line_search": False}), True),
    "rootfinder:linearmixing": Functional("rootfinder:linearmixing", core_root, 1, _run_rootfinder("linearmixing", {"alpha": -0.8}), True),
    "equilibrium:anderson_acc:msize": Functional("equilibrium:anderson_acc:msize", core_equil, 1,
                                                 _run_equilibrium("anderson_acc", {"msize": 2, "beta": 0.8}), True),
    "equilibrium:broyden1:max_rank": Functional("equilibrium:broyden1:max_rank", core_equil, 1, _run_equilibrium("broyden1", {"max_rank": 3}), True),
    "equilibrium:anderson_acc": Functional("equilibrium:anderson_acc", core_equil, 1, _run_equilibrium("anderson_acc"), True),
    "equilibrium:broyden2": Functional("equilibrium:broyden2", core_equil, 1, _run_equilibrium("broyden2"), True),
    "minimize:broyden1": Functional("minimize:broyden1", core_min, 1, _run_minimize("broyden1"), True),
    "minimize:gd": Functional("minimize:gd", core_min, 1, _run_minimize("gd"), True),
    "solve_ivp:rk4": Functional("solve_ivp:rk4", core_ivp, 2, _run_ivp("rk4")),
    "solve_ivp:rk45": Functional("solve_ivp:rk45", core_ivp, 2, _run_ivp("rk45")),
    "solve_ivp:euler": Functional("solve_ivp:euler", core_ivp, 2, _run_ivp("euler")),
    "solve_ivp:rk23": Functional("solve_ivp:rk23", core_ivp, 2, _run_ivp("rk23")),
    "solve_ivp:rk38": Functional("solve_ivp:rk38", core_ivp, 2, _run_ivp("rk38")),
    "quad:7": Functional("quad:7", core_quad, 1, _run_quad(7)),
    "quad:20": Functional("quad:20", core_quad, 1, _run_quad(20)),
    "quad:150": Functional("quad:150", core_quad, 1, _run_quad(150)),      # a point count beyond any internal small-n path
    "jac:mv": Functional("jac:mv", core_root, 1, _run_jac("mv")),
    "jac:rmv": Functional("jac:rmv", core_root, 1, _run_jac("rmv")),
    "jac:full": Functional("jac:full", core_root, 1, _run_jac("full")),
    "hess:mv": Functional("hess:mv", core_min, 1, _run_hess("mv")),
    "hess:full": Functional("hess:full", core_min, 1, _run_hess("full")),
    "jacsolve:bicgstab": Functional("jacsolve:bicgstab", core_root, 1, _run_opsolve("jac", "bicgstab"), True),
    "jacsolve:custom_exactsolve": Functional("jacsolve:custom_exactsolve", core_root, 1, _run_opsolve("jac", "custom_exactsolve")),
    "hesssolve:cg": Functional("hesssolve:cg", core_min, 1, _run_opsolve("hess", "cg"), True),
}


def run_mcquad(built_f, built_p, d, dtype, method, seed):
    """mcquad needs two functions; `mh` draws from the global generator, so the caller's seed fixes the chain"""
    from xitorch.integrate import mcquad
    torch.manual_seed(seed)
    if method == "mh":
        x0 = torch.zeros(d, dtype=dtype)
        return mcquad(built_f.fcn, built_p.fcn, x0, fparams=built_f.params, pparams=built_p.params, method="mh",
                      nsamples=40, nburnout=10, step_size=0.7)
    raise ValueError(method)
