"""Extra C07 scenarios (group "alias"): the right-hand side returns a tensor it does not own - the state y itself (dy/dt = y written as
``lambda t, y: y``), a view of it, an explicit parameter, a closure tensor or an attribute of its object (dy/dt = c).  Each scheme must then
produce exactly its own step map (stability polynomial of dy/dt = y per interval; y0 + c (t - t0) for a constant slope), y(ts[0]) must be y0,
the same call must give the same result twice, and the caller's tensors (y0, c) must be bitwise unchanged.

Added after seeded change C07-r4-b (in-place accumulation on the callback's output in one tableau row) was missed: every right-hand side of
the main groups computes a new tensor."""
import math
import random

import torch

from vf.common import Obs, sub_seed, WarnLog

DT = torch.float64
KINDS = ["state", "state_view", "param", "closure", "em_attr", "nn_param", "state_tuple"]
METHODS = ["rk38", "rk4", "euler", "rk45", "rk23"]


def cases(seed, tier):
    out = []
    n = 140 if tier == "quick" else 1400
    for i in range(n):
        rng = random.Random(sub_seed(seed, "c07x", i))
        out.append({"group": "alias", "seed": sub_seed(seed, "c07xs", i), "method": METHODS[i % 5], "ret": KINDS[(i // 5) % len(KINDS)],
                    "nt": rng.choice([2, 3, 5, 8]), "decreasing": rng.random() < 0.35, "shape": rng.choice([(), (1,), (3,), (2, 2)]),
                    "rg": rng.random() < 0.5})
    return out


def _stab(method, z):
    if method == "euler":
        return 1 + z
    return 1 + z + z * z / 2 + z ** 3 / 6 + z ** 4 / 24          # rk4 and the 3/8 rule share the polynomial


def run_case(desc):
    import xitorch
    from xitorch.integrate import solve_ivp
    obs = Obs(desc)
    rng = random.Random(desc["seed"])
    tg = torch.Generator().manual_seed(desc["seed"])
    method, ret, shape = desc["method"], desc["ret"], tuple(desc["shape"])
    t0 = rng.uniform(-0.5, 0.5)
    fr = sorted([0.0, 1.0] + [rng.uniform(0.05, 0.95) for _ in range(desc["nt"] - 2)])
    T = rng.uniform(0.4, 1.2)
    ts_l = [t0 + T * f for f in fr]
    if desc["decreasing"]:
        ts_l = [t0 + T - (t - t0) for t in ts_l]
    ts = torch.tensor(ts_l, dtype=DT)
    y0v = (torch.randn(shape, generator=tg, dtype=DT) if shape else torch.randn((), generator=tg, dtype=DT)) + 1.5
    cv = (torch.randn(shape, generator=tg, dtype=DT) if shape else torch.randn((), generator=tg, dtype=DT))
    y0 = y0v.clone().requires_grad_(bool(desc["rg"]))
    c = cv.clone().requires_grad_(bool(desc["rg"]))
    keep = [("y0", y0), ("c", c)]
    params = ()
    tuple_state = False
    if ret == "state":
        fcn = lambda t, y: y
    elif ret == "state_view":
        fcn = lambda t, y: y.view_as(y)
    elif ret == "state_tuple":
        tuple_state = True
        fcn = lambda t, y: (y[0], y[1].view_as(y[1]))
    elif ret == "param":
        fcn, params = (lambda t, y, cc: cc), (c,)
    elif ret == "closure":
        fcn = lambda t, y: c
    elif ret == "em_attr":
        class E(xitorch.EditableModule):
            def __init__(self):
                self.c = c

            def f(self, t, y):
                return self.c

            def getparamnames(self, methodname, prefix=""):
                return [prefix + "c"]
        fcn = E().f
    else:
        class M(torch.nn.Module):
            def __init__(self):
                super().__init__()
                self.c = torch.nn.Parameter(cv.clone(), requires_grad=bool(desc["rg"]))

            def forward(self, t, y):
                return self.c
        m = M()
        keep = [("y0", y0), ("c", m.c)]
        fcn = m.forward
    exponential = ret.startswith("state")
    opts = dict(rtol=1e-9, atol=1e-11) if method in ("rk45", "rk23") else {}
    y0_in = (y0, y0 * 0.5) if tuple_state else y0
    before = [(nm, t.detach().clone()) for nm, t in keep]
    mech = "alias:%s:%s" % (ret, method)
    try:
        with WarnLog():
            yt = solve_ivp(fcn, ts, y0_in, params=params, method=method, **opts)
            yt2 = solve_ivp(fcn, ts, y0_in, params=params, method=method, **opts)
    except Exception as e:
        obs.exc_violation("extra:" + mech, e)
        obs.nontrivial = True
        return obs.result()
    for (nm, t), (_, b) in zip(keep, before):
        obs.check(torch.equal(t.detach(), b), "extra:input_modified:%s:%s" % (nm, mech),
                  "the caller's tensor %s was modified in place by solve_ivp (max change %.3e)" % (nm, float((t.detach() - b).abs().max())))
    comps = list(yt) if tuple_state else [yt]
    comps2 = list(yt2) if tuple_state else [yt2]
    starts = [y0v, y0v * 0.5] if tuple_state else [y0v]
    for j, (Y, Y2, s0) in enumerate(zip(comps, comps2, starts)):
        Y, Y2 = Y.detach(), Y2.detach()
        obs.check(tuple(Y.shape) == (len(ts_l),) + shape, "extra:shape:" + mech, "result shape %s, expected %s" % (tuple(Y.shape), (len(ts_l),) + shape))
        if tuple(Y.shape) != (len(ts_l),) + shape:
            continue
        obs.check(torch.equal(Y[0], s0), "extra:initial:" + mech, "y(ts[0]) differs from y0 by %.3e" % float((Y[0] - s0).abs().max()))
        obs.check(torch.equal(Y, Y2), "extra:repeat:" + mech, "the same call gives a different result the second time (max difference %.3e)" % float((Y - Y2).abs().max()))
        # reference
        ref = [s0]
        for k in range(1, len(ts_l)):
            h = ts_l[k] - ts_l[k - 1]
            if exponential:
                fac = _stab(method, h) if method in ("euler", "rk4", "rk38") else math.exp(h)
                ref.append(ref[-1] * fac)
            else:
                ref.append(ref[-1] + cv * h)
        ref = torch.stack(ref)
        tol = 1e-13 if (method in ("euler", "rk4", "rk38") or not exponential) else 1e-7
        err = float((Y - ref).abs().max())
        sc = 1.0 + float(ref.abs().max())
        obs.check(err <= tol * sc * len(ts_l), "extra:value:" + mech,
                  "trajectory differs from the scheme's own step map (%s) by %.3e" % ("stability polynomial of dy/dt = y" if exponential else "y0 + c (t - t0)", err), nt=len(ts_l))
    obs.count("extra_alias_compared")
    obs.nontrivial = True
    return obs.result()
