"""C07 group "firststep": the first trial step of the adaptive methods is the WHOLE first requested interval, and the embedded error estimate of
one step only sees the right-hand side at the stage times t0 + c_j h.  A forcing whose period divides every c_j h (frequency a multiple of 4
oscillations per interval for the Bogacki-Shampine pair, c = 0, 1/2, 3/4, 1; a multiple of 90 for Dormand-Prince, c = 0, 1/5, 3/10, 4/5, 8/9, 1)
looks constant to that step: all stage slopes coincide, the estimate is exactly zero, the step is accepted, and the returned value is off by O(1)
whatever tolerances were requested ("keep the error within the requested tolerances").

Directed cases (a handful per method; known finding on the unchanged tree):
* quad:  y' = a + b cos(2 pi m (t-t0)/h + phi) + 0 y     exact  y0 + a (t-t0) + b h/(2 pi m) (sin(.) - sin(phi))
* sep:   y' = y b (cos(2 pi m (t-t0)/h + phi) - cos(phi))  exact  y0 exp(b (h/(2 pi m) (sin(.) - sin(phi)) - cos(phi) (t-t0)))
on ts = [t0, t0 +- h] (optionally one more point), component-wise random a, b, phi with |cos(phi)| >= 0.3, tensor and list states.
Oracle: global error <= the bound of group accuracy (vf.props.c07.acc_bound, K for resolved steps).  The mechanism key is
`accuracy:alias_first_step:<method>` only when the lockstep model confirms the mechanism (the first attempted step spans the whole first
interval and was accepted with an embedded estimate below the tolerance scale); any other accuracy failure here is `accuracy:firststep_other:<method>`.
Control (evidence only, counters firststep_control_within_bound / firststep_control_10x_better_than_aliased): the same problem with a first
interval of 1/8 forcing period (ts = [t0, t0 +- h/(8 m), t0 +- h], default tolerances), so that the step size approaches the oscillation from below,
is integrated accurately.  It is not a verdict: its lockstep replay is (clause "embedded pair / step control"), its accuracy is not, because a
controller that may grow steps 10x occasionally accepts a step longer than the period by chance (single-component states; seen 12x the tolerance
scale with this control and 50x - error 1e-2 at the default tolerances - when the first interval is h/7, i.e. several periods)."""
import math
import random

import torch

from vf.common import Obs, sub_seed

M_ALIAS = {"rk23": [4, 8], "rk45": [90]}      # oscillations per first interval that make every stage time a multiple of the period
DT = torch.float64


def cases(seed, tier):
    out = []
    reps = 1 if tier == "quick" else 3
    i = 0
    for rep in range(reps):
        for m in ("rk23", "rk45"):
            for kind in ("quad", "sep"):
                for direction in ("inc", "dec"):
                    rng = random.Random(sub_seed(seed, "c07fs", i))
                    tol = rng.choice(["default", "abs", "rel"] + (["tight"] if m == "rk45" else []))     # not 'loose': K x rtol = 0.12 makes the bound vacuous
                    out.append({"group": "firststep", "seed": sub_seed(seed, "c07fss", i), "method": m, "kind": kind, "dir": direction,
                                "tol": tol, "osc": rng.choice(M_ALIAS[m]), "h": rng.choice([1.0, 2.0, 4.0, 0.5, 8.0]),
                                "shape": rng.choice([[1], [3], [2, 2], []]), "layout": rng.choice(["tensor", "tensor", "list"]),
                                "extra_point": rng.random() < 0.4})
                    i += 1
    return out


def run_case(desc):
    from vf.props import c07 as P
    obs = Obs(desc)
    obs.count("group_firststep")
    rng = random.Random(desc["seed"])
    tg = torch.Generator().manual_seed(desc["seed"])
    m, kind, h, osc = desc["method"], desc["kind"], float(desc["h"]), int(desc["osc"])
    sgn = 1.0 if desc["dir"] == "inc" else -1.0
    shape = tuple(desc["shape"])
    t0 = rng.choice([0.0, rng.uniform(-1.5, 1.5)])
    om = 2 * math.pi * osc / h

    def rnd():
        return torch.rand(shape, dtype=DT, generator=tg)
    phi = torch.acos((0.3 + 0.65 * rnd()) * torch.sign(rnd() - 0.5))      # |cos(phi)| in [0.3, 0.95]
    cphi, sphi = torch.cos(phi), torch.sin(phi)
    a = 0.2 + 0.5 * rnd()
    if kind == "quad":
        b = (0.5 + rnd()) * torch.sign(rnd() - 0.5)
        y0 = 0.5 + rnd()
        L = 0.0

        def f1(t, y):
            return a + b * torch.cos(om * (t - t0) + phi) + 0 * y

        def exact1(t):
            return y0 + a * (t - t0) + b / om * (torch.sin(om * (t - t0) + phi) - sphi)
    else:
        b = (0.3 + 0.7 * rnd()) * torch.sign(rnd() - 0.5) * min(1.0, 1.5 / h)
        y0 = 0.5 + rnd()
        L = 2 * float(b.abs().max())

        def f1(t, y):
            return y * b * (torch.cos(om * (t - t0) + phi) - cphi)

        def exact1(t):
            return y0 * torch.exp(b * ((torch.sin(om * (t - t0) + phi) - sphi) / om - cphi * (t - t0)))
    as_list = desc["layout"] == "list"
    if as_list:
        # two components: the problem itself and an independent constant drift (which every scheme integrates exactly)
        y0_in = [y0.clone(), torch.ones(2, dtype=DT)]

        def rule(idx, t, y, *p):
            return [f1(t, y[0]), 0.25 + 0 * y[1]]

        def exact(t):
            return torch.cat([exact1(t).reshape(-1), torch.ones(2, dtype=DT) * (1.0 + 0.25 * (t - t0))])
    else:
        y0_in = y0.clone()

        def rule(idx, t, y, *p):
            return f1(t, y)

        def exact(t):
            return exact1(t).reshape(-1)
    fam = P.Family()
    fam.exact, fam.L = exact, L
    tolname = desc["tol"]
    tl = P._tol(tolname)
    opts = {} if tl is None else {"atol": tl[0], "rtol": tl[1]}
    pts = [t0, t0 + sgn * h] + ([t0 + sgn * 1.5 * h] if desc["extra_point"] else [])
    ts = torch.tensor(pts, dtype=DT)
    span = abs(pts[-1] - pts[0])
    obs.nontrivial = True
    # ---- the aliasing grid
    key = "firststep:%s:%s" % (m, desc["dir"])
    res = P.solve_and_replay(obs, key, m, rule, ts, y0_in, opts=opts)
    if res is not None and res[2].complete:
        yt, ytf, rp, spy = res
        errs, ymax = P._errors(fam, pts, ytf)
        base, floor = P.acc_bound(m, tolname, ymax, L, span, rp.accepted)
        K = P.K_ACC[m]
        first = rp.attempts[0]
        whole = abs(first.h - abs(pts[1] - pts[0])) <= 1e-12 * h and first.status == "accepted" and first.err <= first.scale
        obs.count("firststep_alias_runs")
        if whole:
            obs.count("firststep_whole_interval_accepted")
        obs.note(err=max(errs), bound=K * (base + floor), first_step=first.h, first_estimate=first.err, first_scale=first.scale, calls=spy.n)
        mech = "accuracy:alias_first_step:%s" % m if whole else "accuracy:firststep_other:%s" % m
        obs.check(max(errs) <= K * (base + floor), mech,
                  "global error %.3e exceeds %.3g x (atol+rtol*|y|)(1+LT)sqrt(steps) = %.3e: the first trial step is the whole first interval h=%.3g, the "
                  "forcing (%d oscillations in it) takes the same value at every stage time, the embedded estimate is %.3g <= %.3g and the step is accepted "
                  "(%d right-hand-side calls in total, tolerances '%s')" % (max(errs), K, K * (base + floor), first.h, osc, first.err, first.scale, spy.n, tolname))
    # ---- control: short first interval, default tolerances
    cpts = [t0, t0 + sgn * h / (8.0 * osc), t0 + sgn * h]
    cts = torch.tensor(cpts, dtype=DT)
    res2 = P.solve_and_replay(obs, key + ":control", m, rule, cts, y0_in)
    if res2 is not None and res2[2].complete:
        yt2, ytf2, rp2, spy2 = res2
        errs2, ymax2 = P._errors(fam, cpts, ytf2)
        base2, floor2 = P.acc_bound(m, "default", ymax2, L, h, rp2.accepted)
        obs.count("firststep_control_runs")
        P._track(obs, "firststep_control_ratio", max(errs2) / (base2 + floor2))
        obs.note(control_err=max(errs2), control_calls=spy2.n)
        # evidence only (no verdict): 312 control runs on the unchanged tree stay below 0.15 (rk23) / 12.3 (rk45) of the 120 / 40 allowed, i.e. the
        # margin of rk45 is only 3x - with growth factors up to 10 the controller occasionally accepts a step longer than the period by chance
        if max(errs2) <= P.K_ACC[m] * (base2 + floor2):
            obs.count("firststep_control_within_bound")
        if res is not None and res[2].complete and max(errs2) <= 0.1 * max(errs):
            obs.count("firststep_control_10x_better_than_aliased")
    return obs.result()
