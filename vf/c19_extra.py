"""Extra C19 scenarios (group "held"): things the USER keeps across calls.

* sibling  - a function wrapper made once (xitorch.make_sibling / get_pure_function) before the loop and used in every iteration;
* jacop    - a Jacobian operator (xitorch.grad.jac, with a non-differentiable entry among its arguments) kept by the user and used as the A of solve
             with a Krylov method in every iteration;
* ivp32    - solve_ivp with the adaptive methods on a float32 state (the other groups run in float64).

Monitors: the growth census of the main groups, and for the kept object the set of tensors reachable from it (attributes, lists, tuples, dicts,
nested objects): after the results of a call are dropped it must be the set reachable before the call (a copy made for a backward pass that
stays in the kept object is kept alive by the call)."""
import gc
import random

import torch

from vf.common import Obs, sub_seed, WarnLog

DT = torch.float64


def cases(seed, tier):
    out = []
    k = 0
    hs = ("fwd", "fwd_bwd", "fwd_bwdcg", "fwd_bwdcg_bwd2")
    reps = 1 if tier == "quick" else 5
    for r in range(reps):
        for kind in ("sibling_make", "sibling_getpure"):
            for fn in ("quad", "solve_ivp", "rootfinder", "mcquad", "equilibrium"):
                for holder in ("em", "nn"):
                    for h in hs:
                        if tier == "quick" and (k % 2 == 1):
                            k += 1
                            continue
                        out.append({"group": "held", "kind": kind, "functional": fn, "holder": holder, "history": h, "seed": sub_seed(seed, "c19x", k)})
                        k += 1
        for method in ("cg", "bicgstab", "custom_exactsolve"):
            for h in hs:
                out.append({"group": "held", "kind": "jacop", "functional": "solve", "method": method, "history": h, "nondiff": ["float", "tensor"][k % 2],
                            "seed": sub_seed(seed, "c19x", k)})
                k += 1
        for method in ("rk45", "rk23", "rk4"):
            for holder in ("pure", "em"):
                for h in hs:
                    out.append({"group": "held", "kind": "ivp32", "functional": "solve_ivp", "method": method, "holder": holder, "history": h,
                                "seed": sub_seed(seed, "c19x", k)})
                    k += 1
        # debug mode switched on (its extra checks must not keep anything alive either)
        for fn in ("symeig", "svd", "solve", "rootfinder", "quad"):
            for h in hs:
                out.append({"group": "held", "kind": "debugmode", "functional": fn, "holder": "debug", "history": h, "seed": sub_seed(seed, "c19x", k)})
                k += 1
        # absolute retention with LARGE states: whatever stays alive after the results are dropped must be small compared with one state
        for method in ("rk45", "rk23", "rk4", "euler"):
            for dtn in ("float32", "float64"):
                for h in ("fwd", "fwd_bwd", "fwd_bwdcg"):
                    out.append({"group": "held", "kind": "bigstate", "functional": "solve_ivp", "method": method, "holder": dtn, "history": h,
                                "seed": sub_seed(seed, "c19x", k)})
                    k += 1
    return out


def reachable_tensors(root, maxdepth=6):
    seen, out = set(), {}

    def walk(o, d):
        if id(o) in seen or d > maxdepth:
            return
        seen.add(id(o))
        if isinstance(o, torch.Tensor):
            out[id(o)] = o
            return
        if isinstance(o, (list, tuple)):
            for x in o:
                walk(x, d + 1)
        elif isinstance(o, dict):
            for x in o.values():
                walk(x, d + 1)
        elif hasattr(o, "__dict__") and not isinstance(o, type):
            if isinstance(o, torch.nn.Module):
                walk(dict(o._parameters), d + 1)
                walk(dict(o._buffers), d + 1)
                walk(dict(o._modules), d + 1)
            walk({k: v for k, v in vars(o).items() if k not in ("_parameters", "_buffers", "_modules")}, d + 1)
    walk(root, 0)
    return out


def _consume(outs, leaves, history, tg):
    if history == "fwd":
        return
    L = sum((o * torch.randn(o.shape, generator=tg, dtype=o.dtype)).sum() for o in outs)
    if not (isinstance(L, torch.Tensor) and L.requires_grad):
        return
    g = torch.autograd.grad(L, leaves, create_graph=(history != "fwd_bwd"), allow_unused=True)
    if history == "fwd_bwdcg_bwd2":
        L2 = sum((gi * gi).sum() for gi in g if gi is not None and gi.requires_grad)
        if isinstance(L2, torch.Tensor) and L2.requires_grad:
            torch.autograd.grad(L2, leaves, allow_unused=True)


def make_call(desc):
    import xitorch
    from xitorch.integrate import quad, solve_ivp, mcquad
    from xitorch.optimize import rootfinder, equilibrium
    from xitorch.linalg import solve
    tg = torch.Generator().manual_seed(desc["seed"])
    kind, h = desc["kind"], desc["history"]
    if kind == "ivp32":
        dt = torch.float32
        a = (0.5 + torch.rand(3, generator=tg)).to(dt).requires_grad_()
        y0 = torch.rand(3, generator=tg).to(dt).requires_grad_()
        ts = torch.linspace(0, 1, 4, dtype=dt)
        if desc["holder"] == "pure":
            fcn, params, kept = (lambda t, y, a_: -a_ * y + torch.sin(t)), (a,), None
        else:
            class E(xitorch.EditableModule):
                def __init__(self):
                    self.a = a

                def f(self, t, y):
                    return -self.a * y + torch.sin(t)

                def getparamnames(self, methodname, prefix=""):
                    return [prefix + "a"]
            kept = E()
            fcn, params = kept.f, ()

        def call():
            yt = solve_ivp(fcn, ts, y0, params=params, method=desc["method"])
            _consume([yt], [a, y0], h, tg)
        return call, kept, [a, y0, ts]
    if kind == "debugmode":
        from xitorch.linalg import symeig, svd
        n = 5
        P = torch.randn(n, n, generator=tg, dtype=DT).requires_grad_()
        B = torch.randn(n, 2, generator=tg, dtype=DT).requires_grad_()
        a = (0.5 + torch.rand(2, generator=tg, dtype=DT)).requires_grad_()
        fn = desc["functional"]

        def call():
            with xitorch.enable_debug():
                if fn == "symeig":
                    outs = list(symeig(xitorch.LinearOperator.m(P + P.T, is_hermitian=True), neig=2))
                    outs[1] = outs[1] * outs[1]
                elif fn == "svd":
                    U, S, Vh = svd(xitorch.LinearOperator.m(P), 2)
                    outs = [S, (U * U).sum(0)]
                elif fn == "solve":
                    outs = [solve(xitorch.LinearOperator.m(P @ P.T + n * torch.eye(n, dtype=DT), is_hermitian=True), B)]
                elif fn == "rootfinder":
                    outs = [rootfinder(lambda y, a_: y - 0.4 * torch.tanh(a_ * y) - 0.3, torch.zeros(2, dtype=DT), params=(a,))]
                else:
                    outs = [quad(lambda x, a_: a_ * torch.exp(-x), torch.tensor(0.0, dtype=DT), torch.tensor(1.0, dtype=DT), params=(a,), n=7)]
                _consume(outs, [P, B, a], h, tg)
        return call, None, [P, B, a]
    if kind == "jacop":
        from xitorch.grad import jac
        n = 7
        W = (torch.randn(n, n, generator=tg, dtype=DT) * 0.2).requires_grad_()
        x0 = torch.randn(n, generator=tg, dtype=DT).requires_grad_()
        nd = 1.5 if desc["nondiff"] == "float" else torch.tensor(1.5, dtype=DT)
        B = torch.randn(n, 1, generator=tg, dtype=DT).requires_grad_()

        def f(x, W_, c):
            return 3.0 * x + c * torch.tanh(torch.matmul(W_, x))
        J = jac(f, (x0, W, nd), idxs=0)      # kept by the user
        opts = dict(rtol=1e-10, atol=1e-12) if desc["method"] in ("cg", "bicgstab") else {}

        def call():
            X = solve(J, B, method=desc["method"], **opts)
            _consume([X], [W, x0, B], h, tg)
        return call, J, [W, x0, B]
    # ---- siblings
    a = (0.5 + torch.rand(2, generator=tg, dtype=DT)).requires_grad_()
    b = (0.3 * torch.randn(2, generator=tg, dtype=DT)).requires_grad_()
    fn = desc["functional"]

    def body(lead, a_, b_):
        if fn == "quad":
            return a_ * torch.exp(-b_ * lead[0])
        if fn == "solve_ivp":
            return -a_ * lead[1] + b_ * torch.cos(lead[0])
        if fn == "rootfinder":
            return lead[0] - 0.4 * torch.tanh(a_ * lead[0]) - b_
        if fn == "equilibrium":
            return 0.4 * torch.tanh(a_ * lead[0]) + b_
        return a_ * lead[0] * lead[0] + b_          # mcquad integrand
    if desc["holder"] == "em":
        class E(xitorch.EditableModule):
            def __init__(self):
                self.a, self.held = a, [b]

            def f(self, *lead):
                return body(lead, self.a, self.held[0])

            def lp(self, x):
                return (-0.5 * (x - self.held[0].sum()) ** 2).sum()

            def getparamnames(self, methodname, prefix=""):
                return [prefix + "a", prefix + "held[0]"] if methodname == "f" else [prefix + "held[0]"]
        obj = E()
        leaves = [a, b]
    else:
        class M(torch.nn.Module):
            def __init__(self):
                super().__init__()
                self.a, self.b = torch.nn.Parameter(a.detach().clone()), torch.nn.Parameter(b.detach().clone())

            def f(self, *lead):
                return body(lead, self.a, self.b)

            def lp(self, x):
                return (-0.5 * (x - self.b.sum()) ** 2).sum()
        obj = M()
        leaves = [obj.a, obj.b]
    if kind == "sibling_make":
        @xitorch.make_sibling(obj.f)
        def wrapped(*lead):
            return obj.f(*lead) * 1.0
    else:
        wrapped = xitorch.get_pure_function(obj.f)
    ts = torch.linspace(0, 1, 4, dtype=DT)

    def call():
        if fn == "quad":
            out = quad(wrapped, torch.tensor(0.0, dtype=DT), torch.tensor(1.0, dtype=DT), n=7)
        elif fn == "solve_ivp":
            out = solve_ivp(wrapped, ts, torch.ones(2, dtype=DT), method="rk4")
        elif fn == "rootfinder":
            out = rootfinder(wrapped, torch.zeros(2, dtype=DT))
        elif fn == "equilibrium":
            out = equilibrium(wrapped, torch.zeros(2, dtype=DT))
        else:
            torch.manual_seed(desc["seed"])
            out = mcquad(wrapped, obj.lp, torch.zeros(1, dtype=DT), method="_dummy1d", nsamples=12, lb=-4.0, ub=4.0)
        _consume([out], leaves, h, tg)
    return call, (wrapped, obj), leaves


def run_bigstate(desc):
    from xitorch.integrate import solve_ivp
    from vf.props.c19 import census
    obs = Obs(desc)
    dt = getattr(torch, desc["holder"])
    n = 20000
    tg = torch.Generator().manual_seed(desc["seed"])
    a = (0.5 + torch.rand(n, generator=tg)).to(dt).requires_grad_()
    y0 = torch.rand(n, generator=tg).to(dt).requires_grad_()
    ts = torch.linspace(0, 0.5, 3, dtype=dt)
    h = desc["history"]
    mech = "bigstate:solve_ivp:%s:%s:%s" % (desc["method"], desc["holder"], h)

    def call():
        yt = solve_ivp(lambda t, y, a_: -a_ * y, ts, y0, params=(a,), method=desc["method"])
        _consume([yt], [a, y0], h, tg)
    gc.collect()
    base = census()
    try:
        with WarnLog():
            call()
            call()
    except Exception as e:
        obs.skip("history does not complete on this configuration (%s: %s)" % (type(e).__name__, str(e)[:60]))
        return obs.result()
    gc.collect()       # (cycles are the main groups' subject: here only what is still REACHABLE counts)
    after = census()
    state_bytes = n * (4 if dt == torch.float32 else 8)
    kept = after[1] - base[1]
    obs.note(bytes_before=base[1], bytes_after=after[1], state_bytes=state_bytes)
    obs.check(kept <= 0.25 * state_bytes, "retained_bytes:" + mech,
              "after two calls whose results were dropped (and a full collection) %d bytes of tensor storage are still alive; one state has %d bytes" % (kept, state_bytes))
    obs.count("bigstate_retention_checked")
    obs.count("group_held")
    obs.nontrivial = True
    return obs.result()


def run_case(desc):
    if desc["kind"] == "bigstate":
        return run_bigstate(desc)
    from vf.props.c19 import census, K
    obs = Obs(desc)
    mech = "%s:%s:%s:%s" % (desc["kind"], desc["functional"], desc.get("method") or desc.get("holder"), desc["history"])
    call, kept, leaves = make_call(desc)
    before = reachable_tensors(kept) if kept is not None else {}
    try:
        with WarnLog():
            call()
            call()
    except Exception as e:
        obs.skip("history does not complete on this configuration (%s: %s)" % (type(e).__name__, str(e)[:60]))
        return obs.result()
    gc.collect()
    was = gc.isenabled()
    gc.disable()
    try:
        samples = [census()]
        with WarnLog():
            for i in range(K):
                call()
                samples.append(census())
                obs.count("census_samples")
        after = reachable_tensors(kept) if kept is not None else {}
    finally:
        if was:
            gc.enable()
    gc.collect()
    dn = [samples[i + 1][0] - samples[i][0] for i in range(K)]
    obs.note(live_tensors=[s[0] for s in samples])
    obs.check(not (dn[-1] > 0 and dn[-2] > 0), "tensor_growth:held:" + mech, "live tensors grow with every repetition (cyclic collector off): %s" % [s[0] for s in samples])
    if kept is not None:
        new = [t for i, t in after.items() if i not in before]
        obs.check(not new, "retained_in_kept_object:" + mech,
                  "after the results of the calls were dropped, the object the user keeps (%s) holds %d tensor(s) it did not hold before the calls (shapes %s)"
                  % (type(kept[0] if isinstance(kept, tuple) else kept).__name__, len(new), [tuple(t.shape) for t in new][:4]))
        obs.count("kept_objects_checked")
    obs.count("group_held")
    obs.nontrivial = True
    return obs.result()
