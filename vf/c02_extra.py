"""Extra C02 scenarios (group "reassign"): histories on ONE operator object.  A matrix-free operator (and optionally a matrix-free M) is used
for a solve, its tensors are then re-assigned (new values, new leaves) and it is used again - possibly on the first solution (an implicit
time-stepping chain) - and only then one backward pass runs through all the solves.  Every solve must be differentiated for the operator AS IT
WAS AT ITS CALL: gradients w.r.t. all generations of tensors, B and E are compared with the dense chain, first and second order.

(The main group builds a fresh operator for every solve; a backward that assembles the adjoint system from whatever the object holds at
backward time is invisible there - seeded change C02-r3-b.)"""
import random

import torch

from vf.common import Obs, sub_seed, WarnLog

DT = torch.float64


def cases(seed, tier):
    out = []
    n = 90 if tier == "quick" else 900
    fwd = ["bicgstab", "custom_exactsolve", "cg", None, "broyden1", "bicgstab"]
    for i in range(n):
        rng = random.Random(sub_seed(seed, "c02x", i))
        out.append({"group": "reassign", "seed": sub_seed(seed, "c02xs", i), "fwd": fwd[i % len(fwd)], "emode": ["none", "E", "EM"][(i // 6) % 3],
                    "steps": rng.choice([2, 3]), "chain": rng.random() < 0.6, "n": rng.choice([3, 6, 7]), "ncols": rng.choice([1, 2]),
                    "bck": rng.choice(["same", "bicgstab", "default_tight"]), "batch": rng.choice([(), (2,)]), "reassign_m": rng.random() < 0.5})
    # operators WITHOUT tensor parameters (a fixed stencil): A, M or both - B, E and the other operator's tensors still get their gradients
    nnp = 36 if tier == "quick" else 360
    for i in range(nnp):
        rng = random.Random(sub_seed(seed, "c02xn", i))
        out.append({"group": "reassign", "kind": "noparam", "seed": sub_seed(seed, "c02xns", i), "fwd": ["bicgstab", "cg", "custom_exactsolve", None, "broyden1", "exactsolve"][i % 6],
                    "which": ["A", "M", "both", "A"][(i // 6) % 4], "emode": ["none", "E", "EM", "EM"][(i // 2) % 4], "n": rng.choice([4, 6, 8]), "ncols": rng.choice([1, 2])})
    # the ALIAS STRUCTURE of the operator's tensors changes between two solves on one object (two slots hold one tensor, then two tensors;
    # or the reverse)
    nal = 36 if tier == "quick" else 360
    for i in range(nal):
        rng = random.Random(sub_seed(seed, "c02xl", i))
        out.append({"group": "reassign", "kind": "alias_change", "seed": sub_seed(seed, "c02xls", i), "fwd": ["bicgstab", "cg", "custom_exactsolve", None][i % 4],
                    "direction": ["split", "merge", "split_then_merge"][(i // 4) % 3], "n": rng.choice([4, 6, 8]), "ncols": rng.choice([1, 2]),
                    "chain": rng.random() < 0.5})
    # a failing call (an operator product raises during forward or backward), caught; the caller's tensors updated IN PLACE; the same operator
    # objects used again
    na = 45 if tier == "quick" else 450
    for i in range(na):
        rng = random.Random(sub_seed(seed, "c02xa", i))
        out.append({"group": "reassign", "kind": "abort_reuse", "seed": sub_seed(seed, "c02xas", i), "fwd": ["bicgstab", "custom_exactsolve", "cg"][i % 3],
                    "emode": ["none", "E", "EM"][(i // 3) % 3], "n": rng.choice([3, 6, 7]), "ncols": rng.choice([1, 2]), "phase": rng.choice(["fwd", "bwd", "bwd", "bwd"]),
                    "kfrac": rng.choice([0.0, rng.random(), rng.random(), 0.97, 1.0]), "batch": ()})
    return out


def _mk_classes():
    import xitorch

    class DiagLowRank(xitorch.LinearOperator):
        """A = diag(d) + U U^T (symmetric positive definite for d > 0), matrix-free: only _mv (and the flag is_hermitian)"""

        def __init__(self, d, U):
            super().__init__(shape=(*d.shape[:-1], d.shape[-1], d.shape[-1]), is_hermitian=True, dtype=d.dtype, device=d.device)
            self.d, self.U = d, U

        def _mv(self, x):
            return self.d * x + torch.matmul(self.U, torch.matmul(self.U.transpose(-2, -1), x.unsqueeze(-1))).squeeze(-1)

        def _getparamnames(self, prefix=""):
            return [prefix + "d", prefix + "U"]
    return DiagLowRank


def _dense(d, U):
    return torch.diag_embed(d) + torch.matmul(U, U.transpose(-2, -1))


class _Injected(Exception):
    pass


def run_noparam(desc):
    import xitorch
    from xitorch.linalg import solve
    obs = Obs(desc)
    tg = torch.Generator().manual_seed(desc["seed"])
    n, ncols, fwd, which, emode = desc["n"], desc["ncols"], desc["fwd"], desc["which"], desc["emode"]
    if which in ("M", "both") and emode != "EM":
        emode = "EM"
    Op = _mk_classes()

    class Stencil(xitorch.LinearOperator):
        """c I + tridiag(-1, 0, -1) * h: no tensor parameter at all"""

        def __init__(self, c, h):
            super().__init__(shape=(n, n), is_hermitian=True, dtype=DT, device=torch.device("cpu"))
            self.c, self.h = c, h

        def _mv(self, x):
            z = torch.zeros_like(x)
            return self.c * x - self.h * (torch.cat([x[..., 1:], z[..., :1]], -1) + torch.cat([z[..., :1], x[..., :-1]], -1))

        def _getparamnames(self, prefix=""):
            return []

    def stencil_dense(c, h):
        return c * torch.eye(n, dtype=DT) - h * (torch.diag_embed(torch.ones(n - 1, dtype=DT), offset=1) + torch.diag_embed(torch.ones(n - 1, dtype=DT), offset=-1))

    def rn(*s, scale=1.0):
        return torch.randn(*s, dtype=DT, generator=tg) * scale
    leaves, names = [], []
    if which in ("A", "both"):
        Aop, Adense = Stencil(3.0, 0.8), (lambda lv: stencil_dense(3.0, 0.8))
    else:
        d = (2.0 + torch.rand(n, dtype=DT, generator=tg)).requires_grad_()
        U = rn(n, 2, scale=0.4).requires_grad_()
        leaves += [d, U]
        names += ["A.d", "A.U"]
        Aop, Adense = Op(d, U), (lambda lv: _dense(lv["A.d"], lv["A.U"]))
    Mop = Mdense = None
    if emode == "EM":
        if which in ("M", "both"):
            Mop, Mdense = Stencil(1.5, 0.3), (lambda lv: stencil_dense(1.5, 0.3))
        else:
            md = (1.0 + 0.5 * torch.rand(n, dtype=DT, generator=tg)).requires_grad_()
            mU = rn(n, 1, scale=0.3).requires_grad_()
            leaves += [md, mU]
            names += ["M.d", "M.U"]
            Mop, Mdense = Op(md, mU), (lambda lv: _dense(lv["M.d"], lv["M.U"]))
    B = rn(n, ncols).requires_grad_()
    leaves.append(B)
    names.append("B")
    E = None
    if emode != "none":
        E = (-0.2 - 0.5 * torch.rand(ncols, dtype=DT, generator=tg)).requires_grad_()
        leaves.append(E)
        names.append("E")
    fopts = {}
    if fwd in ("cg", "bicgstab") or (fwd is None and n > 5):
        fopts = dict(rtol=1e-11, atol=1e-13, max_niter=20 * n + 40)
    elif fwd == "broyden1":
        fopts = dict(f_tol=1e-11, x_tol=1e-10)
    bopts = dict(method="bicgstab", rtol=1e-11, atol=1e-13, max_niter=20 * n + 40) if fwd != "exactsolve" else {}
    mech = "noparam:%s:%s:%s" % (which, fwd or "auto", emode)
    C = rn(n, ncols)
    D = [rn(*t.shape) for t in leaves]
    with WarnLog() as wl:
        try:
            X = solve(Aop, B, E, Mop, method=fwd, bck_options=dict(bopts), **fopts)
            g1 = torch.autograd.grad((X * C).sum(), leaves, create_graph=True, allow_unused=True)
            S = sum((gi * di).sum() for gi, di in zip(g1, D) if gi is not None and gi.requires_grad)
            g2 = torch.autograd.grad(S, leaves, allow_unused=True) if isinstance(S, torch.Tensor) and S.requires_grad else [None] * len(leaves)
        except Exception as e:
            obs.exc_violation("reassign:noparam:call:" + mech, e)
            obs.nontrivial = True
            return obs.result()
    if wl.convergence:
        obs.count("reassign_forward_warned")
        return obs.result()
    l2 = [t.detach().clone().requires_grad_() for t in leaves]
    lv = dict(zip(names, l2))
    Ad = Adense(lv)
    if E is None:
        Sx = Ad.unsqueeze(-3).expand(ncols, n, n)
    else:
        Md = Mdense(lv) if Mdense is not None else torch.eye(n, dtype=DT)
        Sx = Ad.unsqueeze(-3) - lv["E"].reshape(ncols, 1, 1) * Md.unsqueeze(-3)
    Xr = torch.linalg.solve(Sx, lv["B"].transpose(-2, -1).unsqueeze(-1)).squeeze(-1).transpose(-2, -1)
    r1 = torch.autograd.grad((Xr * C).sum(), l2, create_graph=True, allow_unused=True)
    S2 = sum((gi * di).sum() for gi, di in zip(r1, D) if gi is not None and gi.requires_grad)
    r2 = torch.autograd.grad(S2, l2, allow_unused=True) if isinstance(S2, torch.Tensor) and S2.requires_grad else [None] * len(l2)
    err = float((X.detach() - Xr.detach()).abs().max())
    obs.check(err <= 1e-7 * (1 + float(Xr.detach().abs().max())), "reassign:noparam:value:" + mech, "solution differs from the dense one by %.3e" % err)
    for order, gs, rs, tol in (("first", g1, r1, 1e-6), ("second", g2, r2, 1e-5)):
        sc = max([1.0] + [float(r.detach().abs().max()) for r in rs if r is not None])
        for nm, g, r, t in zip(names, gs, rs, leaves):
            g = torch.zeros_like(t) if g is None else g.detach()
            r = torch.zeros_like(t) if r is None else r.detach()
            e_ = float((g - r).abs().max())
            obs.check(e_ <= tol * sc, "reassign:noparam:grad_%s:%s:%s" % (order, nm.split(".")[0], mech), "%s-order gradient w.r.t. %s (operator without tensor parameters: %s) differs from "
                      "the dense reference by %.3e (scale %.2e)" % (order, nm, which, e_, sc))
    obs.count("noparam_compared")
    obs.nontrivial = True
    return obs.result()


def run_alias_change(desc):
    import xitorch
    from xitorch.linalg import solve
    obs = Obs(desc)
    tg = torch.Generator().manual_seed(desc["seed"])
    n, ncols, fwd = desc["n"], desc["ncols"], desc["fwd"]

    class TwoDiag(xitorch.LinearOperator):
        """A = diag(d1) + diag(d2) + U U^T, matrix-free; d1 and d2 may be one and the same tensor"""

        def __init__(self, d1, d2, U):
            super().__init__(shape=(n, n), is_hermitian=True, dtype=d1.dtype, device=d1.device)
            self.d1, self.d2, self.U = d1, d2, U

        def _mv(self, x):
            return (self.d1 + self.d2) * x + torch.matmul(self.U, torch.matmul(self.U.transpose(-2, -1), x.unsqueeze(-1))).squeeze(-1)

        def _getparamnames(self, prefix=""):
            return [prefix + "d1", prefix + "d2", prefix + "U"]

    def rn(*s, scale=1.0):
        return torch.randn(*s, dtype=DT, generator=tg) * scale
    t = (1.0 + torch.rand(n, dtype=DT, generator=tg)).requires_grad_()
    t2 = (2.0 + torch.rand(n, dtype=DT, generator=tg)).requires_grad_()
    U = rn(n, 2, scale=0.4).requires_grad_()
    B = rn(n, ncols).requires_grad_()
    # generations of (d1, d2): "split": (t, t) -> (t, t2); "merge": (t, t2) -> (t, t); "split_then_merge": (t, t) -> (t, t2) -> (t2, t2)
    gens = {"split": [(t, t), (t, t2)], "merge": [(t, t2), (t, t)], "split_then_merge": [(t, t), (t, t2), (t2, t2)]}[desc["direction"]]
    fopts = dict(rtol=1e-11, atol=1e-13, max_niter=20 * n + 40) if (fwd in ("cg", "bicgstab") or (fwd is None and n > 5)) else {}
    bopts = dict(method="bicgstab", rtol=1e-11, atol=1e-13, max_niter=20 * n + 40)
    mech = "alias_change:%s:%s" % (desc["direction"], fwd or "auto")
    leaves = [t, t2, U, B]
    names = ["t", "t2", "U", "B"]
    Cs = [rn(n, ncols) for _ in gens]
    with WarnLog() as wl:
        try:
            op = TwoDiag(gens[0][0], gens[0][1], U)
            outs, rhs = [], B
            for gi, (a1, a2) in enumerate(gens):
                if gi > 0:
                    op.d1, op.d2 = a1, a2
                X = solve(op, rhs, method=fwd, bck_options=dict(bopts), **fopts)
                obs.check(op.d1 is a1 and op.d2 is a2 and op.U is U, "reassign:alias_change:object_changed:" + mech,
                          "after solve number %d the operator no longer holds the tensors assigned to it (d1 kept: %s, d2 kept: %s)" % (gi, op.d1 is a1, op.d2 is a2))
                outs.append(X)
                rhs = (X + 0.5 * B) if desc["chain"] else B * (1.0 + 0.3 * (gi + 1))
            L = sum((c * X).sum() for c, X in zip(Cs, outs))
            g1 = torch.autograd.grad(L, leaves, create_graph=True, allow_unused=True)
            D = [rn(*x.shape) for x in leaves]
            S = sum((gi_ * di).sum() for gi_, di in zip(g1, D) if gi_ is not None and gi_.requires_grad)
            g2 = torch.autograd.grad(S, leaves, allow_unused=True)
            a1, a2 = gens[-1]
            obs.check(op.d1 is a1 and op.d2 is a2, "reassign:alias_change:object_changed:" + mech, "after the backward pass the operator no longer holds the tensors assigned last")
        except Exception as e:
            obs.exc_violation("reassign:alias_change:call:" + mech, e)
            obs.nontrivial = True
            return obs.result()
    if wl.convergence:
        obs.count("reassign_forward_warned")
        return obs.result()
    l2 = [x.detach().clone().requires_grad_() for x in leaves]
    tt, tt2, UU, BB = l2
    sub = {id(t): tt, id(t2): tt2}
    outs2, rhs = [], BB
    for gi, (a1, a2) in enumerate(gens):
        Ad = torch.diag_embed(sub[id(a1)] + sub[id(a2)]) + UU @ UU.T
        X = torch.linalg.solve(Ad, rhs)
        outs2.append(X)
        rhs = (X + 0.5 * BB) if desc["chain"] else BB * (1.0 + 0.3 * (gi + 1))
    L2 = sum((c * X).sum() for c, X in zip(Cs, outs2))
    r1 = torch.autograd.grad(L2, l2, create_graph=True, allow_unused=True)
    S2 = sum((gi_ * di).sum() for gi_, di in zip(r1, D) if gi_ is not None and gi_.requires_grad)
    r2 = torch.autograd.grad(S2, l2, allow_unused=True)
    for gi, (X, Xr) in enumerate(zip(outs, outs2)):
        err = float((X.detach() - Xr.detach()).abs().max())
        obs.check(err <= 1e-7 * (1 + float(Xr.detach().abs().max())), "reassign:alias_change:value:" + mech,
                  "solution %d (after the alias structure of the operator's tensors changed) differs from the dense one by %.3e" % (gi, err))
    for order, gs, rs, tol in (("first", g1, r1, 1e-6), ("second", g2, r2, 1e-5)):
        sc = max([1.0] + [float(r.detach().abs().max()) for r in rs if r is not None])
        for nm, g, r, x in zip(names, gs, rs, leaves):
            g = torch.zeros_like(x) if g is None else g.detach()
            r = torch.zeros_like(x) if r is None else r.detach()
            err = float((g - r).abs().max())
            obs.check(err <= tol * sc, "reassign:alias_change:grad_%s:%s:%s" % (order, nm, mech), "%s-order gradient w.r.t. %s differs from the dense chain by %.3e (scale %.2e)" % (order, nm, err, sc))
    obs.count("alias_change_compared")
    obs.nontrivial = True
    return obs.result()


def run_abort(desc):
    from xitorch.linalg import solve
    obs = Obs(desc)
    tg = torch.Generator().manual_seed(desc["seed"])
    n, ncols, emode, fwd = desc["n"], desc["ncols"], desc["emode"], desc["fwd"]
    Op0 = _mk_classes()
    state = {"n": 0, "raise_at": None}

    class Op(Op0):
        def _mv(self, x):
            state["n"] += 1
            if state["raise_at"] is not None and state["n"] == state["raise_at"]:
                raise _Injected("injected failure at operator product %d" % state["n"])
            return Op0._mv(self, x)

    def rn(*s, scale=1.0):
        return torch.randn(*s, dtype=DT, generator=tg) * scale
    d = (1.5 + torch.rand(n, dtype=DT, generator=tg)).requires_grad_()
    U = rn(n, 2, scale=0.4).requires_grad_()
    md = mU = None
    if emode == "EM":
        md = (1.0 + 0.5 * torch.rand(n, dtype=DT, generator=tg)).requires_grad_()
        mU = rn(n, 1, scale=0.3).requires_grad_()
    B = rn(n, ncols).requires_grad_()
    E = (-0.2 - 0.5 * torch.rand(ncols, dtype=DT, generator=tg)).requires_grad_() if emode != "none" else None
    fopts = dict(rtol=1e-11, atol=1e-13, max_niter=20 * n + 40) if fwd in ("cg", "bicgstab") else {}
    bopts = dict(method="bicgstab", rtol=1e-11, atol=1e-13, max_niter=20 * n + 40)
    op = Op(d, U)                        # the operators hold the caller's leaves themselves
    mop = Op(md, mU) if md is not None else None
    leaves = [t for t in (d, U, md, mU, B, E) if t is not None]
    names = [nm for nm, t in zip(("A.d", "A.U", "M.d", "M.U", "B", "E"), (d, U, md, mU, B, E)) if t is not None]
    C = rn(n, ncols)
    mech = "abort:%s:%s:%s" % (fwd, emode, desc["phase"])

    def full():
        X = solve(op, B, E, mop, method=fwd, bck_options=dict(bopts), **fopts)
        m1 = state["n"]
        g = torch.autograd.grad((X * C).sum(), leaves, allow_unused=True)
        return X, g, m1, state["n"]
    with WarnLog() as wl:
        try:
            state["n"] = 0
            _, _, m1, m2 = full()
        except Exception as e:
            obs.exc_violation("reassign:abort:clean_run:" + mech, e)
            obs.nontrivial = True
            return obs.result()
        lo, hi = (0, m1) if desc["phase"] == "fwd" else (m1, m2)
        if hi <= lo:
            obs.skip("no operator product in the chosen phase")
            return obs.result()
        k = min(hi, lo + 1 + int(desc["kfrac"] * (hi - lo - 1e-9)))
        state["n"], state["raise_at"] = 0, k
        raised = False
        try:
            full()
        except _Injected:
            raised = True
        except Exception as e:
            raised = state["n"] >= k
            obs.note(wrapped="%s: %s" % (type(e).__name__, str(e)[:100]))
        state["raise_at"] = None
        if not raised:
            obs.skip("injected failure not reached")
            return obs.result()
        obs.count("abort_injected_" + ("fwd" if desc["phase"] == "fwd" else "bwd"))
        # the caller updates its tensors in place (an optimiser step) and uses the same operator objects again
        with torch.no_grad():
            d.mul_(1.15)
            U.add_(0.05)
            if md is not None:
                md.mul_(0.9)
        try:
            X, g, _, _ = full()
        except Exception as e:
            obs.exc_violation("reassign:abort:reuse:" + mech, e)
            obs.nontrivial = True
            return obs.result()
    if wl.convergence:
        obs.count("reassign_forward_warned")
        return obs.result()
    l2 = [t.detach().clone().requires_grad_() for t in leaves]
    it = iter(l2)
    d2, U2 = next(it), next(it)
    md2, mU2 = (next(it), next(it)) if md is not None else (None, None)
    B2 = next(it)
    E2 = next(it) if E is not None else None
    Ad = _dense(d2, U2)
    if E2 is None:
        S = Ad.unsqueeze(-3).expand(ncols, n, n)
    else:
        Md = _dense(md2, mU2) if md2 is not None else torch.eye(n, dtype=DT)
        S = Ad.unsqueeze(-3) - E2.reshape(ncols, 1, 1) * Md.unsqueeze(-3)
    Xr = torch.linalg.solve(S, B2.transpose(-2, -1).unsqueeze(-1)).squeeze(-1).transpose(-2, -1)
    gr = torch.autograd.grad((Xr * C).sum(), l2, allow_unused=True)
    err = float((X.detach() - Xr.detach()).abs().max())
    obs.check(err <= 1e-7 * (1 + float(Xr.detach().abs().max())), "reassign:abort:value:" + mech,
              "after a caught failure and an in-place update of the caller's tensors the solution differs from the dense one by %.3e" % err)
    sc = max([1.0] + [float(r.abs().max()) for r in gr if r is not None])
    for nm, gi, ri, t in zip(names, g, gr, leaves):
        obs.check(gi is not None or ri is None or float(ri.abs().max()) == 0.0, "reassign:abort:nograd:%s:%s" % (nm.split(".")[0], mech),
                  "after a caught failure, a fresh solve on the same operator gives no gradient to %s" % nm)
        gi = torch.zeros_like(t) if gi is None else gi
        ri = torch.zeros_like(t) if ri is None else ri
        e_ = float((gi - ri).abs().max())
        obs.check(e_ <= 1e-6 * sc, "reassign:abort:grad:%s:%s" % (nm.split(".")[0], mech),
                  "after a caught failure and an in-place update, the gradient w.r.t. %s differs from the dense reference by %.3e (scale %.2e)" % (nm, e_, sc))
    obs.count("abort_reuse_compared")
    obs.nontrivial = True
    return obs.result()


def run_case(desc):
    if desc.get("kind") == "abort_reuse":
        return run_abort(desc)
    if desc.get("kind") == "alias_change":
        return run_alias_change(desc)
    if desc.get("kind") == "noparam":
        return run_noparam(desc)
    from xitorch.linalg import solve
    obs = Obs(desc)
    tg = torch.Generator().manual_seed(desc["seed"])
    n, ncols, steps, emode, batch = desc["n"], desc["ncols"], desc["steps"], desc["emode"], tuple(desc["batch"])
    Op = _mk_classes()

    def rn(*s, scale=1.0):
        return torch.randn(*s, dtype=DT, generator=tg) * scale
    gens = []
    for t in range(steps):
        d = (1.5 + torch.rand(*batch, n, dtype=DT, generator=tg)).requires_grad_()
        U = rn(*batch, n, 2, scale=0.4).requires_grad_()
        gens.append((d, U))
    mgens = []
    if emode == "EM":
        for t in range(steps if desc["reassign_m"] else 1):
            md = (1.0 + 0.5 * torch.rand(n, dtype=DT, generator=tg)).requires_grad_()
            mU = rn(n, 1, scale=0.3).requires_grad_()
            mgens.append((md, mU))
    B = rn(*batch, n, ncols).requires_grad_()
    E = None
    if emode != "none":
        E = (-0.2 - 0.5 * torch.rand(ncols, dtype=DT, generator=tg)).requires_grad_()      # negative shifts keep A - e M positive definite
    fwd = desc["fwd"]
    fopts = {}
    if fwd in ("cg", "bicgstab"):
        fopts = dict(rtol=1e-11, atol=1e-13, max_niter=20 * n + 40)
    elif fwd == "gmres":
        fopts = dict(rtol=1e-11, atol=1e-13)
    elif fwd == "broyden1":
        fopts = dict(f_tol=1e-11, x_tol=1e-10)
    elif fwd is None:
        fopts = dict(rtol=1e-11, atol=1e-13, max_niter=20 * n + 40) if n > 5 else {}
    if desc["bck"] == "same" and fwd is not None:
        bopts = dict(method=fwd, **fopts)
    elif desc["bck"] == "bicgstab":
        bopts = dict(method="bicgstab", rtol=1e-11, atol=1e-13, max_niter=20 * n + 40)
    else:
        bopts = dict(rtol=1e-11, atol=1e-13, max_niter=20 * n + 40) if n > 5 else {}
    mech = "%s:%s:%s:%s" % (fwd or "auto", desc["bck"], emode, "chain" if desc["chain"] else "indep")

    leaves = [t for g in gens for t in g] + [t for g in mgens for t in g] + [B] + ([E] if E is not None else [])
    names = (["A%d.%s" % (t, k) for t in range(steps) for k in ("d", "U")] + ["M%d.%s" % (t, k) for t in range(len(mgens)) for k in ("d", "U")]
             + ["B"] + (["E"] if E is not None else []))

    def ref_chain(lv):
        it = iter(lv)
        g = [(next(it), next(it)) for _ in range(steps)]
        mg = [(next(it), next(it)) for _ in range(len(mgens))]
        Bq = next(it)
        Eq = next(it) if E is not None else None
        outs, rhs = [], Bq
        for t in range(steps):
            Ad = _dense(*g[t])
            if Eq is None:
                S = Ad.unsqueeze(-3)
            else:
                Md = _dense(*mg[min(t, len(mg) - 1)]) if mg else torch.eye(n, dtype=DT)
                S = Ad.unsqueeze(-3) - Eq.reshape(ncols, 1, 1) * Md.unsqueeze(-3)
            S = S.expand(*batch, ncols, n, n)
            X = torch.linalg.solve(S, rhs.transpose(-2, -1).unsqueeze(-1)).squeeze(-1).transpose(-2, -1)
            outs.append(X)
            rhs = (X + 0.5 * Bq) if desc["chain"] else Bq * (1.0 + 0.3 * (t + 1))
        return outs

    with WarnLog() as wl:
        try:
            op = Op(*gens[0])
            mop = Op(*mgens[0]) if mgens else None
            outs, rhs = [], B
            for t in range(steps):
                if t > 0:
                    op.d, op.U = gens[t]                       # the SAME object, new tensors
                    if mop is not None and len(mgens) > 1:
                        mop.d, mop.U = mgens[t]
                X = solve(op, rhs, E, mop, method=fwd, bck_options=dict(bopts), **fopts)
                outs.append(X)
                rhs = (X + 0.5 * B) if desc["chain"] else B * (1.0 + 0.3 * (t + 1))
        except Exception as e:
            obs.exc_violation("reassign:forward:" + mech, e)
            obs.nontrivial = True
            return obs.result()
        if wl.convergence:
            obs.count("reassign_forward_warned")
            obs.skip("forward warned")
            return obs.result()
        Cs = [rn(*X.shape) for X in outs]
        L = sum((c * X).sum() for c, X in zip(Cs, outs))
        D = [rn(*t.shape) for t in leaves]
        try:
            g1 = torch.autograd.grad(L, leaves, create_graph=True, allow_unused=True)
            S = sum((gi * di).sum() for gi, di in zip(g1, D) if gi is not None and gi.requires_grad)
            g2 = torch.autograd.grad(S, leaves, allow_unused=True)
        except Exception as e:
            obs.exc_violation("reassign:backward:" + mech, e)
            obs.nontrivial = True
            return obs.result()
        warned = bool(wl.convergence)
    if warned:
        obs.count("reassign_backward_warned")
        return obs.result()
    # the object still holds the last generation
    obs.check(op.d is gens[-1][0] and op.U is gens[-1][1], "reassign:object_changed:" + mech, "after the backward pass the operator no longer holds the tensors assigned last")
    lv2 = [t.detach().clone().requires_grad_() for t in leaves]
    outs2 = ref_chain(lv2)
    L2 = sum((c * X).sum() for c, X in zip(Cs, outs2))
    r1 = torch.autograd.grad(L2, lv2, create_graph=True, allow_unused=True)
    S2 = sum((gi * di).sum() for gi, di in zip(r1, D) if gi is not None and gi.requires_grad)
    r2 = torch.autograd.grad(S2, lv2, allow_unused=True)
    for t, (X, X2) in enumerate(zip(outs, outs2)):
        err = float((X.detach() - X2.detach()).abs().max())
        obs.check(err <= 1e-7 * (1 + float(X2.detach().abs().max())), "reassign:value:" + mech, "solution %d of the chain differs from the dense chain by %.3e" % (t, err))
    sc1 = max(1.0, max(float(r.detach().abs().max()) for r in r1 if r is not None))
    sc2 = max(1.0, max(float(r.detach().abs().max()) for r in r2 if r is not None))
    for order, gs, rs, sc, tol in (("first", g1, r1, sc1, 1e-6), ("second", g2, r2, sc2, 1e-5)):
        for nm, g, r, t in zip(names, gs, rs, leaves):
            g = torch.zeros_like(t) if g is None else g
            r = torch.zeros_like(t) if r is None else r
            err = float((g.detach() - r.detach()).abs().max())
            role = nm.split(".")[0].rstrip("0123456789") + ("_old" if nm[0] in "AM" and nm[1] != str(steps - 1) and nm[1].isdigit() else "")
            obs.check(err <= tol * sc, "reassign:grad_%s:%s:%s" % (order, role, mech),
                      "%s-order gradient w.r.t. %s (operator object re-assigned between the solves) differs from the dense chain by %.3e (scale %.2e)" % (order, nm, err, sc))
        obs.count("reassign_compared_" + order)
    obs.nontrivial = True
    return obs.result()
