"""C09 round 6 (group "r6"): two more classes of "how the function is supplied".

* kind ivp_tuple - solve_ivp with a TUPLE / LIST state (two components of different shapes): the function is supplied in the usual
                   representations (methods of nn.Module / EditableModule, siblings, pure with interleaved non-tensor parameters) and must give the
                   values and first- / second-order leaf gradients of the explicit-parameter pure function on fresh leaves with the same values;
                   the initial state is a leaf that requires grad in half of the cases (the tensors held by the object are then not the only
                   differentiable inputs, so a lost connection to them is silent).
* kind modobj    - a torch.nn.Module OBJECT handed over as the callable (`equilibrium(net, y0)`, `quad(net, ...)`, `make_sibling(net)`): calling a
                   module runs its forward pre-hooks and forward hooks, so the function is what `net(*args)` computes.  Variants: no hook, a forward
                   pre-hook that rebuilds the weight from two parameters (w = g * v / |v|, as torch.nn.utils.weight_norm does), a forward hook that
                   transforms the output with a parameter of the module, both; optionally one in-place update of g (an optimiser step) between
                   construction and use.  Reference: the pure function computing the same mathematics (hook effect included) on fresh leaves.

Found missing through seeded changes C09-r6-a / C09-r6-b."""
import random

import torch

from vf import funcs
from vf.common import Obs, sub_seed, WarnLog, HarnessBug

IVP_METHODS = ("rk4", "rk45", "euler", "rk23", "rk38")
IVP_REPS = ("pure_dup", "nn_flat", "nn_nested", "nn_tied", "nn_dup", "nn_method_mixed", "em_flat", "em_container", "em_alias",
            "em_nn", "em_mixed", "dual_nn_em", "sib_single", "sib_single_nn", "sib_multi", "sib_multi_shared", "sib_multi_nn")
MOD_FUNCTIONALS = ("rootfinder:broyden1", "rootfinder:default", "equilibrium:anderson_acc", "equilibrium:broyden2", "minimize:broyden1",
                   "solve_ivp:rk4", "solve_ivp:rk45", "quad:20", "jac:full", "jac:rmv", "hess:mv")
HOOKS = ("none", "pre_wn", "fwd_scale", "pre_fwd")


def cases(seed, tier):
    out = []
    k = 0
    reps = 1 if tier == "quick" else 5
    for method in IVP_METHODS:
        for j, rep in enumerate(IVP_REPS):
            for r in range(reps):
                if tier == "quick" and (j + len(method) + IVP_METHODS.index(method)) % 2 != 0:
                    continue
                if tier == "quick" and method == "rk23" and j % 6 != 1:      # the costly method: three representations in quick
                    continue
                rng = random.Random(sub_seed(seed, "c09r6t", method, rep, r))
                out.append({"group": "r6", "kind": "ivp_tuple", "functional": "solve_ivp:" + method, "rep": rep,
                            "container": rng.choice(["tuple", "list"]), "ret": rng.choice(["tuple", "list"]),
                            "derived": (rep not in funcs.NN_REPS) and rng.random() < 0.5, "y0_rg": int(rng.random() < 0.5),
                            "d": rng.choice([2, 3, 4]), "m": rng.choice([1, 2, 3]), "s": rng.choice([0.3, 0.4, 0.5]), "seed": sub_seed(seed, "c09r6s", k)})
                k += 1
    for i, fname in enumerate(MOD_FUNCTIONALS):
        for j, hook in enumerate(HOOKS):
            for r in range(reps):
                rng = random.Random(sub_seed(seed, "c09r6m", fname, hook, r))
                out.append({"group": "r6", "kind": "modobj", "functional": fname, "hook": hook, "via": rng.choice(["direct", "direct", "sibling"]),
                            "nested": int(rng.random() < 0.5), "step": int(hook in ("pre_wn", "pre_fwd") and rng.random() < 0.5),
                            "d": rng.choice([2, 3, 4]), "s": rng.choice([0.3, 0.4]), "seed": sub_seed(seed, "c09r6s", k)})
                k += 1
    return out


def run_case(desc):
    if desc["kind"] == "ivp_tuple":
        return run_ivp_tuple(desc)
    return run_modobj(desc)


# ------------------------------------------------------------------------------------------------ comparison
def _outs(o):
    return list(o) if isinstance(o, (tuple, list)) else [o]


def _grads(outs, leaves, cots, cots2):
    """first-order gradients (None kept) and second-order contraction"""
    L = sum((o * c).sum() for o, c in zip(outs, cots))
    g = torch.autograd.grad(L, leaves, create_graph=True, allow_unused=True)
    L2 = sum((gi * c).sum() for gi, c in zip(g, cots2) if gi is not None and gi.requires_grad)
    g2 = None
    if isinstance(L2, torch.Tensor) and L2.requires_grad:
        g2 = [None if x is None else x.detach() for x in torch.autograd.grad(L2, leaves, allow_unused=True)]
    return [None if x is None else x.detach() for x in g], g2


def _z(x, like):
    return torch.zeros_like(like) if x is None else x


def compare(obs, mech, tol, outs_ref, outs, leaves_ref, leaves, names, tg, dtype):
    ok_shape = len(outs_ref) == len(outs) and all(a.shape == b.shape for a, b in zip(outs_ref, outs))
    obs.check(ok_shape, "r6:value_shape:" + mech, "output structure differs: %s vs %s" % ([tuple(o.shape) for o in outs], [tuple(o.shape) for o in outs_ref]))
    if not ok_shape:
        return False
    scale = max(1.0, max(float(o.detach().abs().max()) for o in outs_ref))
    verr = max(float((a.detach() - b.detach()).abs().max()) for a, b in zip(outs_ref, outs))
    obs.check(verr <= tol * scale, "r6:value:" + mech, "value differs from the pure-function form by %.3e (scale %.2e)" % (verr, scale))
    cots = [torch.randn(o.shape, generator=tg, dtype=dtype) for o in outs_ref]
    cots2 = [torch.randn(l.shape, generator=tg, dtype=dtype) for l in leaves_ref]
    try:
        g1r, g2r = _grads(outs_ref, leaves_ref, cots, cots2)
    except Exception as e:
        raise HarnessBug("reference (pure function) backward failed for %s: %s: %s" % (mech, type(e).__name__, e))
    try:
        g1, g2 = _grads(outs, leaves, cots, cots2)
    except Exception as e:
        obs.exc_violation("r6:backward:" + mech, e)
        return False
    gs = max([1.0] + [float(x.abs().max()) for x in g1r if x is not None])
    nz1 = nz2 = False
    for n, a, b, l in zip(names, g1r, g1, leaves_ref):
        if a is not None and float(a.abs().max()) > 1e-12:
            nz1 = True
            obs.check(b is not None, "r6:grad_missing:" + mech, "the gradient w.r.t. leaf %s is None although the pure-function form gives a non-zero one" % n, leaf=n)
        err = float((_z(a, l) - _z(b, l)).abs().max())
        obs.check(err <= tol * gs, "r6:grad1:" + mech, "first-order gradient w.r.t. leaf %s differs by %.3e (scale %.2e)" % (n, err, gs), leaf=n)
    obs.count("first_order_compared", len(names))
    obs.check((g2r is None) == (g2 is None), "r6:grad2_presence:" + mech, "second-order graph %s for the pure form but %s for the representation"
              % ("absent" if g2r is None else "present", "absent" if g2 is None else "present"))
    if g2r is not None and g2 is not None:
        gs2 = max([1.0] + [float(x.abs().max()) for x in g2r if x is not None])
        for n, a, b, l in zip(names, g2r, g2, leaves_ref):
            if a is not None and float(a.abs().max()) > 1e-12:
                nz2 = True
            err = float((_z(a, l) - _z(b, l)).abs().max())
            obs.check(err <= 10 * tol * gs2, "r6:grad2:" + mech, "second-order gradient w.r.t. leaf %s differs by %.3e (scale %.2e)" % (n, err, gs2), leaf=n)
        obs.count("second_order_compared", len(names))
    return nz1 and nz2


# ------------------------------------------------------------------------------------------------ solve_ivp with a tuple / list state
def _tuple_core(ret):
    def core(t, y, a, b, W, s):
        y1, y2 = y                                     # (d,) and (d, m)
        d1 = -s * y1 + 0.3 * torch.tanh(torch.matmul(W, y1) + b) + a * torch.cos(t) + 0.1 * y2.sum(dim=-1)
        d2 = -s * y2 + 0.2 * torch.matmul(W, y2) + (a * y1).unsqueeze(-1) * torch.sin(t)
        return (d1, d2) if ret == "tuple" else [d1, d2]
    return core


def _build_tuple(rep, core, eff, s):
    """funcs.build, except for the single siblings whose wrapper must handle a sequence result"""
    import xitorch
    if rep in ("sib_single", "sib_single_nn"):
        inner = funcs.build("em_flat" if rep == "sib_single" else "nn_nested", core, 2, eff, s)

        @xitorch.make_sibling(inner.fcn)
        def f(*lead):
            return type(inner.fcn(*lead))(x * 1.0 for x in inner.fcn(*lead))
        return funcs.Built(f, (), inner.objs, ())
    return funcs.build(rep, core, 2, eff, s)


def run_ivp_tuple(desc):
    from xitorch.integrate import solve_ivp
    obs = Obs(desc)
    fname, rep, d, m, s = desc["functional"], desc["rep"], desc["d"], desc["m"], desc["s"]
    method = fname.split(":")[1]
    dtype = torch.float64
    tg = torch.Generator().manual_seed(desc["seed"])
    mech = "ivp_%s_state:%s:%s%s" % (desc["container"], fname, rep, ":derived" if desc["derived"] else "")
    core = _tuple_core(desc["ret"])
    lv_ref = funcs.make_leaves(d, tg, dtype)
    lv = funcs.clone_leaves(lv_ref)
    y1 = torch.randn(d, generator=tg, dtype=dtype) * 0.5
    y2 = torch.randn(d, m, generator=tg, dtype=dtype) * 0.5
    ts = torch.linspace(0.0, 0.8, 4, dtype=dtype)
    # (both sides do the same arithmetic, so the step-size tolerance does not enter the comparison)
    opts = dict(atol=1e-9, rtol=1e-8) if method == "rk45" else (dict(atol=1e-7, rtol=1e-6) if method == "rk23" else {})

    def side(rep_, leaves):
        y0 = [y1.clone().requires_grad_(bool(desc["y0_rg"])), y2.clone().requires_grad_(bool(desc["y0_rg"]))]
        built = _build_tuple(rep_, core, funcs.effective(leaves, desc["derived"]), s)
        y0c = tuple(y0) if desc["container"] == "tuple" else list(y0)
        res = solve_ivp(built.fcn, ts, y0c, params=built.params, method=method, **opts)
        return res, [leaves[k] for k in funcs.LEAF_NAMES] + (y0 if desc["y0_rg"] else [])
    try:
        with WarnLog():
            res_ref, leaves_ref = side("pure", lv_ref)
    except Exception as e:
        raise HarnessBug("reference (pure function) run failed for %s: %s: %s" % (mech, type(e).__name__, e))
    try:
        with WarnLog():
            res, leaves = side(rep, lv)
    except Exception as e:
        obs.exc_violation("r6:forward:" + mech, e)
        obs.nontrivial = True
        return obs.result()
    obs.check(isinstance(res, (list, tuple)) and len(res) == 2, "r6:value_shape:" + mech, "the result for a sequence state is %s" % type(res).__name__)
    names = list(funcs.LEAF_NAMES) + (["y0[0]", "y0[1]"] if desc["y0_rg"] else [])
    nz = compare(obs, mech, 1e-8, _outs(res_ref), _outs(res), leaves_ref, leaves, names, tg, dtype)
    obs.count("ivp_seqstate_compared")
    obs.count("ivp_seqstate_%s" % desc["container"])
    if desc["y0_rg"]:
        obs.count("ivp_seqstate_y0_requires_grad")
    obs.nontrivial = bool(nz) or bool(obs.viol)
    return obs.result()


# ------------------------------------------------------------------------------------------------ module object as the callable
MOD_NAMES = ("a0", "b0", "g0", "v0", "c0")


def _weight(g, v):
    return v * (g / v.norm(dim=1)).unsqueeze(-1)


def _hooked(out, c):
    return out * 0.8 + 0.1 * torch.sin(c).sum()


def _make_module(core, hook, nested, s, P):
    """P: dict of Parameters a, b, g, v, c.  Without a pre-hook the module computes the weight in forward."""
    pre = hook in ("pre_wn", "pre_fwd")
    post = hook in ("fwd_scale", "pre_fwd")

    class Inner(torch.nn.Module):
        def __init__(self):
            super().__init__()
            self.b = P["b"]

    class Net(torch.nn.Module):
        def __init__(self):
            super().__init__()
            self.a, self.g, self.v = P["a"], P["g"], P["v"]
            if post:
                self.c = P["c"]
            if nested:
                self.inner = Inner()
            else:
                self.b = P["b"]
            self.ncalls = 0
            self.nforward = 0

        def forward(self, *lead):
            self.nforward += 1
            b = self.inner.b if nested else self.b
            W = self.W if pre else _weight(self.g, self.v)
            return core(*lead, self.a, b, W, s)

    net = Net()
    if pre:
        def pre_hook(mod, inp):
            mod.ncalls += 1
            mod.W = _weight(mod.g, mod.v)          # a plain attribute rebuilt from the parameters at every call
        net.register_forward_pre_hook(pre_hook)
        net.W = _weight(net.g, net.v)              # as torch.nn.utils.weight_norm does when it is applied
    if post:
        def fwd_hook(mod, inp, out):
            mod.ncalls += 1
            return _hooked(out, mod.c)
        net.register_forward_hook(fwd_hook)
    return net


def run_modobj(desc):
    import xitorch
    obs = Obs(desc)
    fname, hook, d, s = desc["functional"], desc["hook"], desc["d"], desc["s"]
    dtype = torch.float64
    tg = torch.Generator().manual_seed(desc["seed"])
    F = funcs.FUNCTIONALS[fname]
    core, nlead = F.core, F.nlead
    post = hook in ("fwd_scale", "pre_fwd")
    mech = "module_object:%s:%s:%s%s%s" % (fname, hook, desc["via"], ":nested" if desc["nested"] else "", ":stepped" if desc["step"] else "")
    tol = 1e-6 if F.iterative else 1e-8
    base = funcs.make_leaves(d, tg, dtype)
    vals = {"a0": base["a0"].detach(), "b0": base["b0"].detach(), "v0": base["W0"].detach() + 0.05 * torch.eye(d, dtype=dtype),
            "g0": 0.15 + 0.25 * torch.rand(d, generator=tg, dtype=dtype), "c0": torch.randn(d, generator=tg, dtype=dtype) * 0.5}
    names = [n for n in MOD_NAMES if post or n != "c0"]
    P = {n[0]: torch.nn.Parameter(vals[n].clone()) for n in names}
    net = _make_module(core, hook, desc["nested"], s, P)
    if desc["step"]:
        with torch.no_grad():                      # one optimiser step on g, in place, after the module was set up
            net.g.mul_(0.7)
            vals["g0"] = vals["g0"] * 0.7
    R = {n: vals[n].clone().requires_grad_() for n in names}

    def pure(*args):
        lead, rest = args[:nlead], args[nlead:]
        pa, pb, pg, pv = rest[:4]
        out = core(*lead, pa, pb, _weight(pg, pv), s)
        return _hooked(out, rest[4]) if post else out
    try:
        with WarnLog():
            outs_ref = _outs(F.run(funcs.Built(pure, [R[n] for n in names], [], ()), d, dtype, None))
    except Exception as e:
        raise HarnessBug("reference (pure function) run failed for %s: %s: %s" % (mech, type(e).__name__, e))
    if desc["via"] == "sibling":
        @xitorch.make_sibling(net)
        def fcn(*lead):
            return net(*lead) * 1.0
    else:
        fcn = net
    try:
        with WarnLog():
            outs = _outs(F.run(funcs.Built(fcn, (), [("net", net)], ()), d, dtype, None))
    except Exception as e:
        obs.exc_violation("r6:forward:" + mech, e)
        obs.nontrivial = True
        return obs.result()
    leaves = [P[n[0]] for n in names]
    leaves_ref = [R[n] for n in names]
    nz = compare(obs, mech, tol, outs_ref, outs, leaves_ref, leaves, names, tg, dtype)
    obs.check(all(isinstance(getattr(net, k), torch.nn.Parameter) and getattr(net, k) is P[k] for k in ("a", "g", "v")), "r6:object_changed:" + mech,
              "after the calls the module does not hold its own Parameters any more")
    obs.count("module_object_compared")
    obs.count("module_object_hook_%s" % hook)
    if hook != "none":
        obs.count("module_object_hook_runs", net.ncalls)
    obs.note(hook_runs=net.ncalls, forward_runs=net.nforward)
    obs.nontrivial = bool(nz) or bool(obs.viol)
    return obs.result()
