"""Shared by the C14 / C15 monitors: 1-D sample grids with stated irregularity bounds and independent references
(numpy / scipy only - nothing here imports xitorch)."""
import math

import numpy as np

GRID_KINDS = ["uniform", "random", "clustered", "graded"]
# largest ratio of adjacent spacings a generated grid may have (stated bound of the generators)
MAX_ADJ_RATIO = {"uniform": 1.0 + 1e-6, "random": math.e ** 2, "clustered": math.e ** 3, "graded": 1.5}
MAX_TOTAL_RATIO = 1.0e3


def make_grid(kind, n, rng, float32=False):
    """strictly increasing sample positions (numpy float64 array of values exactly representable in the working
    precision).  Bounds: x in [-3, 6], adjacent spacing ratio <= MAX_ADJ_RATIO[kind], max/min spacing <= 1e3."""
    a = rng.uniform(-2.0, 1.0)
    length = rng.uniform(0.5, 4.0)
    if kind == "uniform":
        h = [1.0] * (n - 1)
    elif kind == "random":
        h = [math.exp(rng.uniform(-1.0, 1.0)) for _ in range(n - 1)]
    elif kind == "clustered":
        h = [1.0]
        for _ in range(n - 2):
            h.append(h[-1] * math.exp(rng.uniform(-1.5, 1.5)))
            # keep the total spread bounded
            h[-1] = min(max(h[-1], 1.0 / 30.0), 30.0)
    elif kind == "graded":
        q = rng.uniform(1.1, 1.5)
        q = min(q, MAX_TOTAL_RATIO ** (1.0 / max(n - 2, 1)))
        h = [q ** i for i in range(n - 1)]
        if rng.random() < 0.5:
            h.reverse()
    else:
        raise ValueError(kind)
    h = np.asarray(h, dtype=np.float64)
    h = h / h.sum() * length
    x = a + np.concatenate([[0.0], np.cumsum(h)])
    if float32:
        x = x.astype(np.float32).astype(np.float64)
    if not np.all(np.diff(x) > 0):
        raise ValueError("grid generator produced a non-increasing grid")
    return x


def grid_stats(x):
    h = np.diff(x)
    adj = float(np.max(np.maximum(h[1:] / h[:-1], h[:-1] / h[1:]))) if len(h) > 1 else 1.0
    wrap = float(max(h[0] / h[-1], h[-1] / h[0]))
    return {"adj_ratio": adj, "wrap_ratio": wrap, "tot_ratio": float(h.max() / h.min()), "hmin": float(h.min()), "hmax": float(h.max())}


# ------------------------------------------------------------------------------------------------ quadrature references
def trapz_cumsum_1d(x, y):
    """exact running integral of the piecewise linear interpolant"""
    h = np.diff(x)
    return np.concatenate([[0.0], np.cumsum(0.5 * (y[1:] + y[:-1]) * h)])


def _parabola_integral(x0, x1, x2, f0, f1, f2, a, b):
    """exact integral over [a, b] of the parabola through (x0,f0), (x1,f1), (x2,f2) (Newton form)"""
    d1 = (f1 - f0) / (x1 - x0)
    d12 = (f2 - f1) / (x2 - x1)
    d2 = (d12 - d1) / (x2 - x0)
    h0 = x1 - x0

    def prim(u):  # primitive of f0 + d1 u + d2 u (u - h0) in u = x - x0
        return f0 * u + d1 * u * u / 2.0 + d2 * (u ** 3 / 3.0 - h0 * u * u / 2.0)
    return prim(b - x0) - prim(a - x0)


def simpson_cumsum_1d(x, y):
    """running integral of piecewise parabolas as in the composite Simpson rule for irregularly spaced data that the
    implementation cites: even index 2m = parabolas through the consecutive triples (0,1,2), (2,3,4), ...; odd index
    k >= 3 = value at k-1 plus the last interval [x_{k-1}, x_k] of the parabola through (k-2, k-1, k); index 1 = trapezoid"""
    n = len(x)
    out = np.zeros(n, dtype=np.float64)
    for k in range(2, n, 2):
        out[k] = out[k - 2] + _parabola_integral(x[k - 2], x[k - 1], x[k], y[k - 2], y[k - 1], y[k], x[k - 2], x[k])
    if n > 1:
        out[1] = 0.5 * (y[0] + y[1]) * (x[1] - x[0])
    for k in range(3, n, 2):
        out[k] = out[k - 1] + _parabola_integral(x[k - 2], x[k - 1], x[k], y[k - 2], y[k - 1], y[k], x[k - 1], x[k])
    return out


def scipy_bc(bc):
    return {None: "not-a-knot", "not-a-knot": "not-a-knot", "natural": "natural", "clamped": "clamped",
            "periodic": "periodic"}[bc]


def cspline_cumsum_1d(x, y, bc):
    from scipy.interpolate import CubicSpline
    cs = CubicSpline(x, y, bc_type=scipy_bc(bc))
    anti = cs.antiderivative()
    return anti(x) - anti(x[0])


def ref_cumsum_1d(method, bc, x, y):
    if method == "trapz":
        return trapz_cumsum_1d(x, y)
    if method == "simpson":
        return simpson_cumsum_1d(x, y)
    if method == "cspline":
        return cspline_cumsum_1d(x, y, bc)
    raise ValueError(method)


# ------------------------------------------------------------------------------------------------ extrapolation positions
def mirror_pos(xq, xmin, xmax):
    """position inside [xmin, xmax] of the mirror image of xq, and the sign of d(pos)/d(xq)"""
    L = xmax - xmin
    u = (xq - xmin) / L
    sgn = np.where(u < 0, -1.0, 1.0)
    u = np.abs(u)
    m = np.mod(u, 2.0)
    down = m > 1.0
    pos = np.where(down, 2.0 - m, m)
    sgn = sgn * np.where(down, -1.0, 1.0)
    return xmin + pos * L, sgn


def periodic_pos(xq, xmin, xmax):
    L = xmax - xmin
    return xmin + np.mod(xq - xmin, L), np.ones_like(xq)
