"""Extra C12 scenarios (group "extra"):

* limdtype - the limits are tensors (or numbers) of ANOTHER dtype than the integrand's output (float32 / int64 / int32 limit tensors, python ints,
             mixtures with python floats) while the integrand computes in float64: the rule must still be the exact n-point rule in the
             integrand's precision (random polynomial of degree <= 2n-1 with an exact rational integral);
* alias    - the integrand returns a tensor it does not own (an explicit parameter, a closure tensor, an attribute / nn.Parameter of its object,
             the abscissa itself, a view of a parameter): the value is the exact integral, the call is linear in such constants, and the caller's
             tensors are bitwise unchanged afterwards.

Added after seeded changes C12-r3-a / C12-r3-b were missed (limits always had the integrand's dtype; integrands always computed a new tensor)."""
import random
from fractions import Fraction

import torch

from vf.common import Obs, sub_seed, WarnLog

DT = torch.float64


def cases(seed, tier):
    out = []
    nl, na = (120, 90) if tier == "quick" else (1200, 900)
    forms = ["f32_f32", "i64_i64", "i32_i64", "int_f32", "float_f32", "f32_float", "i64_float", "f32t1_f32t1", "i64_f32", "f64_f32"]
    for i in range(nl):
        rng = random.Random(sub_seed(seed, "c12xl", i))
        out.append({"group": "extra", "kind": "limdtype", "seed": sub_seed(seed, "c12xls", i), "form": forms[i % len(forms)],
                    "n": rng.choice([1, 2, 3, 6, 16, 40]), "style": rng.choice(["tensorconst", "param", "module"])})
    kinds = ["param", "closure", "em_attr", "nn_param", "abscissa", "param_view", "param_expand", "tuple_alias"]
    for i in range(na):
        rng = random.Random(sub_seed(seed, "c12xa", i))
        out.append({"group": "extra", "kind": "alias", "seed": sub_seed(seed, "c12xas", i), "ret": kinds[i % len(kinds)],
                    "n": rng.choice([1, 2, 5, 40, 100]), "shape": rng.choice([(), (1,), (3,), (2, 2)]),
                    "lim": rng.choice(["num", "t0", "t1"]), "rg": rng.random() < 0.5})
    return out


def _exact(coefs, xl, xu):
    tot = Fraction(0)
    for k, c in enumerate(coefs):
        tot += Fraction(c) * (Fraction(xu) ** (k + 1) - Fraction(xl) ** (k + 1)) / (k + 1)
    return float(tot)


def run_limdtype(desc, obs):
    import xitorch
    from xitorch.integrate import quad
    rng = random.Random(desc["seed"])
    n, form = desc["n"], desc["form"]
    deg = min(2 * n - 1, 7)
    coefs = [rng.randint(-16, 16) / 8.0 for _ in range(deg + 1)]
    fa, fb = form.split("_")
    integer = fa.startswith("i") or fb.startswith("i")
    if integer:
        xl = rng.randint(-3, 2)
        xu = xl + rng.randint(1, 3)
    else:
        xl = rng.randint(-24, 16) / 8.0             # float32-representable
        xu = xl + rng.randint(1, 24) / 8.0
    if rng.random() < 0.3:
        xl, xu = xu, xl

    def mk(kind, v):
        if kind == "f32":
            return torch.tensor(float(v), dtype=torch.float32)
        if kind == "f32t1":
            return torch.tensor([float(v)], dtype=torch.float32)
        if kind == "f64":
            return torch.tensor(float(v), dtype=torch.float64)
        if kind == "i64":
            return torch.tensor(int(v), dtype=torch.int64)
        if kind == "i32":
            return torch.tensor(int(v), dtype=torch.int32)
        if kind == "int":
            return int(v)
        return float(v)
    xlo, xuo = mk(fa, xl), mk(fb, xu)
    c = torch.tensor(coefs, dtype=DT)
    style = desc["style"]

    def poly(x, cc):
        # float64 arithmetic whatever the dtype of the abscissa tensor handed in (a 1-element float32 x would otherwise win the type promotion
        # against 0-dim float64 coefficients)
        x = x.to(DT)
        acc = cc[deg] * torch.ones_like(x)
        for k in range(deg - 1, -1, -1):
            acc = acc * x + cc[k]
        return acc
    if style == "tensorconst":
        fcn, params = (lambda x: poly(x, c)), ()
    elif style == "param":
        cp = c.clone().requires_grad_()
        fcn, params = (lambda x, cc: poly(x, cc)), (cp,)
    else:
        class M(torch.nn.Module):
            def __init__(self):
                super().__init__()
                self.c = torch.nn.Parameter(c.clone())

            def forward(self, x):
                return poly(x, self.c)
        fcn, params = M().forward, ()
    mech = "limdtype:%s:%s" % (form, style)
    try:
        with WarnLog():
            y = quad(fcn, xlo, xuo, params=params, n=n)
    except Exception as e:
        obs.exc_violation("extra:" + mech, e, n=n, xl=xl, xu=xu)
        obs.nontrivial = True
        return
    ref = _exact(coefs, xl, xu)
    scale = abs(xu - xl) * sum(abs(ck) * max(abs(xl), abs(xu), 1.0) ** k for k, ck in enumerate(coefs))
    obs.check(y.dtype == torch.float64, "extra:dtype:" + mech, "integrand computes in float64 but the result is %s" % y.dtype)
    err = abs(float(y.detach().reshape(-1)[0]) - ref)
    obs.check(err <= 5000 * 2.3e-16 * max(scale, 1e-300), "extra:value:" + mech,
              "degree-%d polynomial with %d points on [%s, %s] given as %s: error %.3e (scale %.2e) - not the exact rule in float64" % (deg, n, xl, xu, form, err, scale),
              n=n)
    obs.count("extra_limdtype_compared")
    obs.nontrivial = abs(ref) > 0 or True


def run_alias(desc, obs):
    import xitorch
    from xitorch.integrate import quad
    tg = torch.Generator().manual_seed(desc["seed"])
    rng = random.Random(desc["seed"])
    n, ret, shape = desc["n"], desc["ret"], tuple(desc["shape"])
    xl = rng.randint(-8, 4) / 4.0
    xu = xl + rng.randint(1, 12) / 4.0
    if rng.random() < 0.3:
        xl, xu = xu, xl
    lim = desc["lim"]
    if lim == "num":
        xlo, xuo = xl, xu
    elif lim == "t0":
        xlo, xuo = torch.tensor(xl, dtype=DT), torch.tensor(xu, dtype=DT)
    else:
        xlo, xuo = torch.tensor([xl], dtype=DT), torch.tensor([xu], dtype=DT)
    cval = (torch.randn(shape, generator=tg, dtype=DT) if shape else torch.randn((), generator=tg, dtype=DT)) + 0.5
    c = cval.clone().requires_grad_(bool(desc["rg"]))
    keep = [c]            # tensors of the caller that must stay bitwise unchanged
    L = xu - xl
    expect = None
    params = ()
    if ret == "param":
        fcn, params, expect = (lambda x, cc: cc), (c,), cval * L
    elif ret == "closure":
        fcn, expect = (lambda x: c), cval * L
    elif ret == "em_attr":
        class E(xitorch.EditableModule):
            def __init__(self):
                self.c = c

            def f(self, x):
                return self.c

            def getparamnames(self, methodname, prefix=""):
                return [prefix + "c"]
        fcn, expect = E().f, cval * L
    elif ret == "nn_param":
        class M(torch.nn.Module):
            def __init__(self):
                super().__init__()
                self.c = torch.nn.Parameter(cval.clone(), requires_grad=bool(desc["rg"]))

            def forward(self, x):
                return self.c
        m = M()
        keep = [m.c]
        fcn, expect = m.forward, cval * L
    elif ret == "abscissa":
        fcn, expect = (lambda x: x), torch.tensor(0.5 * (xu * xu - xl * xl), dtype=DT)
    elif ret == "param_view":
        fcn, params, expect = (lambda x, cc: cc.reshape(-1)), (c,), cval.reshape(-1) * L
    elif ret == "param_expand":
        fcn, params, expect = (lambda x, cc: cc.expand(2, *cc.shape)), (c,), cval.expand(2, *cval.shape) * L
    else:   # tuple_alias
        fcn, params, expect = (lambda x, cc: (cc, cc * x)), (c,), (cval * L, cval * 0.5 * (xu * xu - xl * xl))
    before = [t.detach().clone() for t in keep]
    mech = "alias:%s:%s" % (ret, lim)
    try:
        with WarnLog():
            y = quad(fcn, xlo, xuo, params=params, n=n)
            y2 = quad(fcn, xlo, xuo, params=params, n=n)        # the same call again: the first one must not have changed its inputs
    except Exception as e:
        obs.exc_violation("extra:" + mech, e, n=n, shape=list(shape))
        obs.nontrivial = True
        return
    for t, b in zip(keep, before):
        obs.check(torch.equal(t.detach(), b), "extra:input_modified:" + mech, "the tensor returned by the integrand was modified in place by quad (max change %.3e)"
                  % float((t.detach() - b).abs().max()))
    ys = list(y) if isinstance(y, (tuple, list)) else [y]
    y2s = list(y2) if isinstance(y2, (tuple, list)) else [y2]
    es = list(expect) if isinstance(expect, (tuple, list)) else [expect]
    for j, (a, a2, e) in enumerate(zip(ys, y2s, es)):
        if tuple(a.shape) != tuple(e.shape) and a.numel() == e.numel():
            a, a2 = a.reshape(e.shape), a2.reshape(e.shape)
        ok_shape = tuple(a.shape) == tuple(e.shape)
        obs.check(ok_shape, "extra:shape:" + mech, "result shape %s, expected %s" % (tuple(a.shape), tuple(e.shape)))
        if not ok_shape:
            continue
        sc = 1.0 + float(e.abs().max())
        err = float((a.detach() - e).abs().max())
        eps = torch.finfo(a.dtype).eps        # (python-number limits + an integrand without tensor constants: torch's default dtype)
        obs.check(err <= 5000 * eps * sc * max(1.0, abs(L)), "extra:value:" + mech, "integral of a constant integrand (output %d) is off by %.3e with n=%d" % (j, err, n), n=n)
        obs.check(torch.equal(a.detach(), a2.detach()), "extra:repeat:" + mech, "the same call gives a different result the second time")
    obs.count("extra_alias_compared")
    obs.nontrivial = True


def run_case(desc):
    obs = Obs(desc)
    if desc["kind"] == "limdtype":
        run_limdtype(desc, obs)
    else:
        run_alias(desc, obs)
    return obs.result()
