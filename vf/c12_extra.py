"""Extra C12 scenarios (group "extra"):

* limdtype - the limits are tensors (or numbers) of ANOTHER dtype than the integrand's output (float32 / int64 / int32 limit tensors, python ints,
             mixtures with python floats) while the integrand computes in float64: the rule must still be the exact n-point rule in the
             integrand's precision (random polynomial of degree <= 2n-1 with an exact rational integral);
* alias    - the integrand returns a tensor it does not own (an explicit parameter, a closure tensor, an attribute / nn.Parameter of its object,
             the abscissa itself, a view of a parameter): the value is the exact integral, the call is linear in such constants, and the caller's
             tensors are bitwise unchanged afterwards.

* mixtuple - tuple / list integrands whose COMPONENTS DIFFER IN DTYPE (float32 / float64 in every order, 2 or 3 components of different shapes),
             limits as python numbers / ints / 0-dim / 1-element tensors (float64 or float32) and mixtures, n = 3..10, every component a random
             polynomial of degree <= 2n-1 with an exact rational integral: each component is exact to the precision of ITS OWN dtype (a float64
             component is returned as float64 and is accurate to float64 round-off whatever the precision and position of the other components) and
             agrees with the same component integrated alone.

Added after seeded changes C12-r3-a / C12-r3-b were missed (limits always had the integrand's dtype; integrands always computed a new tensor) and
after C12-r6-a (tuple components always shared one dtype)."""
import random
from fractions import Fraction

import torch

from vf.common import Obs, sub_seed, WarnLog

DT = torch.float64


def cases(seed, tier):
    out = []
    nl, na = (120, 90) if tier == "quick" else (1200, 900)
    forms = ["f32_f32", "i64_i64", "i32_i64", "int_f32", "float_f32", "f32_float", "i64_float", "f32t1_f32t1", "i64_f32", "f64_f32"]
    for i in range(nl):
        rng = random.Random(sub_seed(seed, "c12xl", i))
        out.append({"group": "extra", "kind": "limdtype", "seed": sub_seed(seed, "c12xls", i), "form": forms[i % len(forms)],
                    "n": rng.choice([1, 2, 3, 6, 16, 40]), "style": rng.choice(["tensorconst", "param", "module"])})
    kinds = ["param", "closure", "em_attr", "nn_param", "abscissa", "param_view", "param_expand", "tuple_alias"]
    for i in range(na):
        rng = random.Random(sub_seed(seed, "c12xa", i))
        out.append({"group": "extra", "kind": "alias", "seed": sub_seed(seed, "c12xas", i), "ret": kinds[i % len(kinds)],
                    "n": rng.choice([1, 2, 5, 40, 100]), "shape": rng.choice([(), (1,), (3,), (2, 2)]),
                    "lim": rng.choice(["num", "t0", "t1"]), "rg": rng.random() < 0.5})
    # options for the BACKWARD pass (bck_options with another n / the same method) must not change the forward value
    for i in range(40 if tier == "quick" else 400):
        rng = random.Random(sub_seed(seed, "c12xb", i))
        out.append({"group": "extra", "kind": "bckopts", "seed": sub_seed(seed, "c12xbs", i), "n": rng.choice([2, 3, 5, 8]), "nbck": rng.choice([1, 2, 40]),
                    "lim": rng.choice(["num", "t0", "t0g"]), "withmethod": rng.random() < 0.5, "tuple": rng.random() < 0.3})
    # float32 on infinite ranges with algebraic (1/x^2) tails and many points: the jacobian of the substitution near +-pi/2 must stay exact
    for i in range(36 if tier == "quick" else 360):
        rng = random.Random(sub_seed(seed, "c12xi", i))
        out.append({"group": "extra", "kind": "inf32", "seed": sub_seed(seed, "c12xis", i), "n": [100, 150, 250, 400][i % 4], "range": ["both", "upper", "lower"][(i // 4) % 3],
                    "fam": ["lorentz", "x2lorentz2"][(i // 12) % 2], "lim": rng.choice(["num", "t0"]), "dtype": ["float32", "float32", "float64"][i % 3]})
    # tuple / list integrands whose components differ in dtype
    orders = [["f32", "f64"], ["f64", "f32"], ["f32", "f64", "f32"], ["f32", "f32", "f64"], ["f64", "f32", "f64"], ["f32", "f64", "f64"], ["f64", "f64", "f32"]]
    mforms = ["num", "t0", "t1", "int", "t0f32", "num_t0", "t0_num", "num_t1", "t1_num", "t1f32", "t0f32_t1", "t0_t1"]
    for i in range(132 if tier == "quick" else 1320):
        rng = random.Random(sub_seed(seed, "c12xm", i))
        out.append({"group": "extra", "kind": "mixtuple", "seed": sub_seed(seed, "c12xms", i), "order": orders[i % len(orders)],
                    "form": mforms[(i // len(orders)) % len(mforms)], "n": rng.randint(3, 10), "style": ["cast", "natural", "pow"][i % 3],
                    "container": rng.choice(["tuple", "list"]), "maxdeg": rng.random() < 0.6})
    # precision of the rule with limits of mixed kind: a python number and a float64 tensor (both orders), a float32 and a float64 tensor (both orders),
    # integrand made of python arithmetic only (its dtype follows the abscissae)
    pforms = ["num_t0", "t0_num", "num_t1", "t1_num", "int_t0", "t0_int", "t0f32_t0", "t0_t0f32", "t1f32_t0", "num_t0", "int_t1", "t1_t0f32"]
    for i in range(96 if tier == "quick" else 960):
        rng = random.Random(sub_seed(seed, "c12xp", i))
        out.append({"group": "extra", "kind": "limprec", "seed": sub_seed(seed, "c12xps", i), "form": pforms[i % len(pforms)],
                    "n": rng.choice([1, 2, 3, 4, 5, 8, 16]), "style": ["pure", "pow"][(i // len(pforms)) % 2]})
    return out


def _exact(coefs, xl, xu):
    tot = Fraction(0)
    for k, c in enumerate(coefs):
        tot += Fraction(c) * (Fraction(xu) ** (k + 1) - Fraction(xl) ** (k + 1)) / (k + 1)
    return float(tot)


def run_limdtype(desc, obs):
    import xitorch
    from xitorch.integrate import quad
    rng = random.Random(desc["seed"])
    n, form = desc["n"], desc["form"]
    deg = min(2 * n - 1, 7)
    coefs = [rng.randint(-16, 16) / 8.0 for _ in range(deg + 1)]
    fa, fb = form.split("_")
    integer = fa.startswith("i") or fb.startswith("i")
    if integer:
        xl = rng.randint(-3, 2)
        xu = xl + rng.randint(1, 3)
    else:
        xl = rng.randint(-24, 16) / 8.0             # float32-representable
        xu = xl + rng.randint(1, 24) / 8.0
    if rng.random() < 0.3:
        xl, xu = xu, xl

    def mk(kind, v):
        if kind == "f32":
            return torch.tensor(float(v), dtype=torch.float32)
        if kind == "f32t1":
            return torch.tensor([float(v)], dtype=torch.float32)
        if kind == "f64":
            return torch.tensor(float(v), dtype=torch.float64)
        if kind == "i64":
            return torch.tensor(int(v), dtype=torch.int64)
        if kind == "i32":
            return torch.tensor(int(v), dtype=torch.int32)
        if kind == "int":
            return int(v)
        return float(v)
    xlo, xuo = mk(fa, xl), mk(fb, xu)
    c = torch.tensor(coefs, dtype=DT)
    style = desc["style"]

    def poly(x, cc):
        # float64 arithmetic whatever the dtype of the abscissa tensor handed in (a 1-element float32 x would otherwise win the type promotion
        # against 0-dim float64 coefficients)
        x = x.to(DT)
        acc = cc[deg] * torch.ones_like(x)
        for k in range(deg - 1, -1, -1):
            acc = acc * x + cc[k]
        return acc
    if style == "tensorconst":
        fcn, params = (lambda x: poly(x, c)), ()
    elif style == "param":
        cp = c.clone().requires_grad_()
        fcn, params = (lambda x, cc: poly(x, cc)), (cp,)
    else:
        class M(torch.nn.Module):
            def __init__(self):
                super().__init__()
                self.c = torch.nn.Parameter(c.clone())

            def forward(self, x):
                return poly(x, self.c)
        fcn, params = M().forward, ()
    mech = "limdtype:%s:%s" % (form, style)
    try:
        with WarnLog():
            y = quad(fcn, xlo, xuo, params=params, n=n)
    except Exception as e:
        obs.exc_violation("extra:" + mech, e, n=n, xl=xl, xu=xu)
        obs.nontrivial = True
        return
    ref = _exact(coefs, xl, xu)
    scale = abs(xu - xl) * sum(abs(ck) * max(abs(xl), abs(xu), 1.0) ** k for k, ck in enumerate(coefs))
    obs.check(y.dtype == torch.float64, "extra:dtype:" + mech, "integrand computes in float64 but the result is %s" % y.dtype)
    err = abs(float(y.detach().reshape(-1)[0]) - ref)
    obs.check(err <= 5000 * 2.3e-16 * max(scale, 1e-300), "extra:value:" + mech,
              "degree-%d polynomial with %d points on [%s, %s] given as %s: error %.3e (scale %.2e) - not the exact rule in float64" % (deg, n, xl, xu, form, err, scale),
              n=n)
    obs.count("extra_limdtype_compared")
    obs.nontrivial = abs(ref) > 0 or True


def run_alias(desc, obs):
    import xitorch
    from xitorch.integrate import quad
    tg = torch.Generator().manual_seed(desc["seed"])
    rng = random.Random(desc["seed"])
    n, ret, shape = desc["n"], desc["ret"], tuple(desc["shape"])
    xl = rng.randint(-8, 4) / 4.0
    xu = xl + rng.randint(1, 12) / 4.0
    if rng.random() < 0.3:
        xl, xu = xu, xl
    lim = desc["lim"]
    if lim == "num":
        xlo, xuo = xl, xu
    elif lim == "t0":
        xlo, xuo = torch.tensor(xl, dtype=DT), torch.tensor(xu, dtype=DT)
    else:
        xlo, xuo = torch.tensor([xl], dtype=DT), torch.tensor([xu], dtype=DT)
    cval = (torch.randn(shape, generator=tg, dtype=DT) if shape else torch.randn((), generator=tg, dtype=DT)) + 0.5
    c = cval.clone().requires_grad_(bool(desc["rg"]))
    keep = [c]            # tensors of the caller that must stay bitwise unchanged
    L = xu - xl
    expect = None
    params = ()
    if ret == "param":
        fcn, params, expect = (lambda x, cc: cc), (c,), cval * L
    elif ret == "closure":
        fcn, expect = (lambda x: c), cval * L
    elif ret == "em_attr":
        class E(xitorch.EditableModule):
            def __init__(self):
                self.c = c

            def f(self, x):
                return self.c

            def getparamnames(self, methodname, prefix=""):
                return [prefix + "c"]
        fcn, expect = E().f, cval * L
    elif ret == "nn_param":
        class M(torch.nn.Module):
            def __init__(self):
                super().__init__()
                self.c = torch.nn.Parameter(cval.clone(), requires_grad=bool(desc["rg"]))

            def forward(self, x):
                return self.c
        m = M()
        keep = [m.c]
        fcn, expect = m.forward, cval * L
    elif ret == "abscissa":
        fcn, expect = (lambda x: x), torch.tensor(0.5 * (xu * xu - xl * xl), dtype=DT)
    elif ret == "param_view":
        fcn, params, expect = (lambda x, cc: cc.reshape(-1)), (c,), cval.reshape(-1) * L
    elif ret == "param_expand":
        fcn, params, expect = (lambda x, cc: cc.expand(2, *cc.shape)), (c,), cval.expand(2, *cval.shape) * L
    else:   # tuple_alias
        fcn, params, expect = (lambda x, cc: (cc, cc * x)), (c,), (cval * L, cval * 0.5 * (xu * xu - xl * xl))
    before = [t.detach().clone() for t in keep]
    mech = "alias:%s:%s" % (ret, lim)
    try:
        with WarnLog():
            y = quad(fcn, xlo, xuo, params=params, n=n)
            y2 = quad(fcn, xlo, xuo, params=params, n=n)        # the same call again: the first one must not have changed its inputs
    except Exception as e:
        obs.exc_violation("extra:" + mech, e, n=n, shape=list(shape))
        obs.nontrivial = True
        return
    for t, b in zip(keep, before):
        obs.check(torch.equal(t.detach(), b), "extra:input_modified:" + mech, "the tensor returned by the integrand was modified in place by quad (max change %.3e)"
                  % float((t.detach() - b).abs().max()))
    ys = list(y) if isinstance(y, (tuple, list)) else [y]
    y2s = list(y2) if isinstance(y2, (tuple, list)) else [y2]
    es = list(expect) if isinstance(expect, (tuple, list)) else [expect]
    for j, (a, a2, e) in enumerate(zip(ys, y2s, es)):
        if tuple(a.shape) != tuple(e.shape) and a.numel() == e.numel():
            a, a2 = a.reshape(e.shape), a2.reshape(e.shape)
        ok_shape = tuple(a.shape) == tuple(e.shape)
        obs.check(ok_shape, "extra:shape:" + mech, "result shape %s, expected %s" % (tuple(a.shape), tuple(e.shape)))
        if not ok_shape:
            continue
        sc = 1.0 + float(e.abs().max())
        err = float((a.detach() - e).abs().max())
        eps = torch.finfo(a.dtype).eps        # (python-number limits + an integrand without tensor constants: torch's default dtype)
        obs.check(err <= 5000 * eps * sc * max(1.0, abs(L)), "extra:value:" + mech, "integral of a constant integrand (output %d) is off by %.3e with n=%d" % (j, err, n), n=n)
        obs.check(torch.equal(a.detach(), a2.detach()), "extra:repeat:" + mech, "the same call gives a different result the second time")
    obs.count("extra_alias_compared")
    obs.nontrivial = True


def run_bckopts(desc, obs):
    from xitorch.integrate import quad
    rng = random.Random(desc["seed"])
    n, nb = desc["n"], desc["nbck"]
    deg = 2 * n - 1
    coefs = [rng.randint(-16, 16) / 8.0 for _ in range(deg + 1)]
    xl = rng.randint(-12, 8) / 8.0
    xu = xl + rng.randint(2, 16) / 8.0
    c = torch.tensor(coefs, dtype=DT, requires_grad=True)

    def poly(x, cc):
        x = x.to(DT)
        acc = cc[deg] * torch.ones_like(x)
        for k in range(deg - 1, -1, -1):
            acc = acc * x + cc[k]
        return (acc, 2.0 * acc) if desc["tuple"] else acc
    if desc["lim"] == "num":
        xlo, xuo = xl, xu
    else:
        xlo = torch.tensor(xl, dtype=DT, requires_grad=desc["lim"] == "t0g")
        xuo = torch.tensor(xu, dtype=DT, requires_grad=desc["lim"] == "t0g")
    bck = {"n": nb}
    if desc["withmethod"]:
        bck["method"] = "leggauss"
    mech = "bckopts:%s:%s" % (desc["lim"], "tuple" if desc["tuple"] else "tensor")
    try:
        with WarnLog():
            y = quad(poly, xlo, xuo, params=(c,), n=n, bck_options=bck)
            y0 = quad(poly, xlo, xuo, params=(c,), n=n)
    except Exception as e:
        obs.exc_violation("extra:" + mech, e, n=n, nbck=nb)
        obs.nontrivial = True
        return
    ys = list(y) if isinstance(y, (tuple, list)) else [y]
    y0s = list(y0) if isinstance(y0, (tuple, list)) else [y0]
    ref = _exact(coefs, xl, xu)
    scale = abs(xu - xl) * sum(abs(ck) * max(abs(xl), abs(xu), 1.0) ** k for k, ck in enumerate(coefs))
    for j, (a, b) in enumerate(zip(ys, y0s)):
        fac = 2.0 if j == 1 else 1.0
        err = abs(float(a.detach().reshape(-1)[0]) - fac * ref)
        obs.check(err <= 5000 * 2.3e-16 * fac * max(scale, 1e-300), "extra:value:" + mech,
                  "degree-%d polynomial, n=%d, bck_options n=%d: the forward value is off by %.3e (scale %.2e) - not the n-point rule" % (deg, n, nb, err, scale), n=n)
        obs.check(torch.equal(a.detach(), b.detach()), "extra:bck_changes_forward:" + mech, "the forward value changes when bck_options are given (difference %.3e)"
                  % float((a.detach() - b.detach()).abs().max()))
    obs.count("extra_bckopts_compared")
    obs.nontrivial = True


def run_inf32(desc, obs):
    import math
    from xitorch.integrate import quad
    dt = torch.float32 if desc["dtype"] == "float32" else DT
    fam, rng_ = desc["fam"], desc["range"]
    if fam == "lorentz":
        f, whole = (lambda x: 1.0 / (1.0 + x * x)), math.pi
    else:
        f, whole = (lambda x: x * x / (1.0 + x * x) ** 2), math.pi / 2
    lo, hi = {"both": (-math.inf, math.inf), "upper": (0.0, math.inf), "lower": (-math.inf, 0.0)}[rng_]
    ref = whole if rng_ == "both" else whole / 2
    if desc["lim"] == "num":
        xlo, xuo = lo, hi
        fcn = lambda x: f(x.to(dt))
    else:
        xlo, xuo = torch.tensor(lo, dtype=dt), torch.tensor(hi, dtype=dt)
        fcn = f
    mech = "inf32:%s:%s:%s:%s" % (fam, rng_, desc["dtype"], desc["lim"])
    try:
        with WarnLog():
            y = quad(fcn, xlo, xuo, n=desc["n"])
    except Exception as e:
        obs.exc_violation("extra:" + mech, e, n=desc["n"])
        obs.nontrivial = True
        return
    err = abs(float(y.detach().double().reshape(-1)[0]) - ref) / ref
    # largest relative error seen on the unchanged tree: 4e-7 (float32), 2e-12 (float64, n >= 100)
    tol = 2e-5 if y.dtype == torch.float32 else 1e-9
    obs.check(err <= tol, "extra:value:" + mech, "integral over an infinite range of an integrand with a 1/x^2 tail: relative error %.3e with n=%d (%s)" % (err, desc["n"], y.dtype), n=desc["n"])
    obs.count("extra_inf32_compared")
    obs.nontrivial = True


MIX_CTOL = 5000.0


def _mix_limit(kind, v):
    if kind == "num":
        return float(v)
    if kind == "int":
        return int(v)
    dt = torch.float32 if kind.endswith("f32") else DT
    if kind.startswith("t0"):
        return torch.tensor(float(v), dtype=dt)
    return torch.tensor([float(v)], dtype=dt)


def run_mixtuple(desc, obs):
    from xitorch.integrate import quad
    rng = random.Random(desc["seed"])
    n, order, form, style = desc["n"], list(desc["order"]), desc["form"], desc["style"]
    parts = form.split("_")
    if len(parts) == 1:
        parts = parts * 2
    if "int" in parts:
        xl = rng.randint(-2, 1)
        xu = xl + rng.randint(1, 3)
    else:
        xl = rng.randint(-16, 12) / 8.0             # float32-representable
        xu = xl + rng.randint(1, 24) / 8.0
    if rng.random() < 0.35:
        xl, xu = xu, xl
    xlo, xuo = _mix_limit(parts[0], xl), _mix_limit(parts[1], xu)
    X, L = max(abs(xl), abs(xu)), abs(xu - xl)
    # components: dtype, shape, integer coefficient table (deg+1) x numel (coefficients k/8: exact in float32)
    shapes_all = [(), (1,), (3,), (2, 2), (1, 3), (2,)]
    comps = []
    for d in order:
        shape = rng.choice(shapes_all if style == "cast" else shapes_all[1:])       # (without the cast a 0-dim float32 constant takes the dtype of x)
        deg = 2 * n - 1 if desc["maxdeg"] else rng.randint(1, 2 * n - 1)
        numel = 1
        for sdim in shape:
            numel *= sdim
        ints = [[rng.randint(-16, 16) for _ in range(numel)] for _ in range(deg + 1)]
        for e in range(numel):
            if ints[deg][e] == 0:
                ints[deg][e] = 4
        dt = torch.float32 if d == "f32" else DT
        C = (torch.tensor(ints, dtype=torch.float64) / 8.0).reshape((deg + 1,) + tuple(shape)).to(dt)
        comps.append({"d": d, "dt": dt, "shape": tuple(shape), "deg": deg, "ints": ints, "C": C, "numel": numel})

    def ev(cp, x):
        x0 = x.reshape(())
        C, deg = cp["C"], cp["deg"]
        if style == "cast":
            x0 = x0.to(cp["dt"])
        if style == "pow":
            acc = C[0] + C[1] * x0
            for k in range(2, deg + 1):
                acc = acc + C[k] * x0 ** k
            return acc
        acc = C[deg]
        for k in range(deg - 1, -1, -1):
            acc = acc * x0 + C[k]
        return acc

    def integrand(x):
        res = [ev(cp, x) for cp in comps]
        return tuple(res) if desc["container"] == "tuple" else res

    sig = "".join("L" if d == "f32" else "H" for d in order)
    mech = "mixtuple:%s:%s:%s" % (sig, form, style)
    lowfirst = order[0] == "f32"
    try:
        with WarnLog():
            y = quad(integrand, xlo, xuo, n=n)
    except Exception as e:
        obs.exc_violation("extra:" + mech, e, n=n, xl=xl, xu=xu)
        obs.nontrivial = True
        return
    obs.nontrivial = True
    good = isinstance(y, (tuple, list)) and len(y) == len(comps) and all(isinstance(v, torch.Tensor) for v in y)
    if not obs.check(good, "extra:structure:" + mech, "result is %s of length %s, expected a sequence of %d tensors"
                     % (type(y).__name__, len(y) if hasattr(y, "__len__") else "?", len(comps))):
        return
    worst = {"f32": 0.0, "f64": 0.0}
    for j, (cp, v) in enumerate(zip(comps, y)):
        d, eps = cp["d"], torch.finfo(cp["dt"]).eps
        cm = "%s:comp%s" % (mech, "H" if d == "f64" else "L")
        if not obs.check(tuple(v.shape) == cp["shape"], "extra:shape:" + cm, "component %d has shape %s, the integrand returns %s" % (j, tuple(v.shape), cp["shape"])):
            continue
        if d == "f64":
            obs.check(v.dtype == torch.float64, "extra:dtype:" + cm, "component %d is computed in float64 by the integrand (the others: %s) but is returned as %s"
                      % (j, ",".join(order), v.dtype))
        else:
            obs.check(v.dtype in (torch.float32, torch.float64), "extra:dtype:" + cm, "float32 component %d is returned as %s" % (j, v.dtype))
        ref = torch.tensor([_exact([r[e] / 8.0 for r in cp["ints"]], xl, xu) for e in range(cp["numel"])], dtype=torch.float64)
        scale = torch.tensor([L * sum(abs(r[e]) / 8.0 * X ** k for k, r in enumerate(cp["ints"])) for e in range(cp["numel"])], dtype=torch.float64)
        ratio = float(((v.detach().double().reshape(-1) - ref).abs() / (eps * scale)).max())
        worst[d] = max(worst[d], ratio)
        obs.check(ratio <= MIX_CTOL, "extra:value:" + cm,
                  "component %d (%s, shape %s, degree %d) of a %s-valued integrand with component dtypes (%s), n=%d on [%s, %s]: error %.3e eps(%s) x scale - "
                  "not exact to the precision of this component" % (j, d, cp["shape"], cp["deg"], desc["container"], ",".join(order), n, xl, xu, ratio, d), n=n)
        obs.count("extra_mixtuple_components_checked")
        if d == "f64":
            obs.count("extra_mixtuple_f64_components_checked")
        # the same component integrated alone
        try:
            with WarnLog():
                ya = quad(lambda x: ev(cp, x), xlo, xuo, n=n)
        except Exception as e:
            obs.exc_violation("extra:alone:" + cm, e, n=n)
            continue
        # (a single 0-dim output integrated between 1-element limits comes back with the limits' shape (1,): only the number of elements is compared)
        if obs.check(isinstance(ya, torch.Tensor) and ya.numel() == cp["numel"], "extra:alone_shape:" + cm, "component %d integrated alone: %r" % (j, getattr(ya, "shape", ya))):
            ra = float(((v.detach().double().reshape(-1) - ya.detach().double().reshape(-1)).abs() / (eps * scale)).max())
            obs.check(ra <= 2 * MIX_CTOL, "extra:alone_differs:" + cm, "component %d (%s) inside the %s differs from the same integrand integrated alone by %.3e eps(%s) x scale"
                      % (j, d, desc["container"], ra, d), n=n)
            worst[d] = max(worst[d], ra / 2)
            obs.count("extra_mixtuple_alone_compared")
    obs.count("extra_mixtuple_compared")
    if lowfirst:
        obs.count("extra_mixtuple_lowprec_first")
    obs.note(n=n, worst_f32_over_eps_scale=worst["f32"], worst_f64_over_eps_scale=worst["f64"])


def run_limprec(desc, obs):
    """one limit is a float64 tensor: the interval is the one given (a float64 endpoint is not rounded to single precision), the polynomial is integrated
    to float64 round-off and the swapped call gives the opposite value - whichever of the two limits the float64 tensor is"""
    from xitorch.integrate import quad
    rng = random.Random(desc["seed"])
    n, form, style = desc["n"], desc["form"], desc["style"]
    deg = min(2 * n - 1, 7)
    coefs = [rng.randint(-16, 16) / 8.0 for _ in range(deg + 1)]
    if coefs[deg] == 0:
        coefs[deg] = 0.5
    fa, fb = form.split("_")

    def value(kind, lo, hi):
        if kind == "int":
            return rng.randint(int(lo), int(hi))
        if kind.endswith("f32"):
            return rng.randint(int(lo * 8), int(hi * 8)) / 8.0
        return rng.uniform(lo, hi)              # a double that is not representable in single precision
    xl = value(fa, -2, 1)
    xu = value(fb, xl + 1, xl + 3)
    if rng.random() < 0.4:
        xl, xu, fa, fb = xu, xl, fb, fa          # reversed orientation (the limit kinds go with their values: keys use the kinds as finally given)
    xlo, xuo = _mix_limit(fa, xl), _mix_limit(fb, xu)
    form = fa + "_" + fb

    if style == "pure":
        def f(x):
            acc = coefs[deg]
            for k in range(deg - 1, -1, -1):
                acc = coefs[k] + x * acc
            return acc
    else:
        def f(x):
            acc = coefs[0] + coefs[1] * x
            for k in range(2, deg + 1):
                acc = acc + coefs[k] * x ** k
            return acc
    mech = "limprec:%s:%s" % (form, style)
    obs.nontrivial = True
    try:
        with WarnLog():
            y = quad(f, xlo, xuo, n=n)
            ysw = quad(f, xuo, xlo, n=n)
    except Exception as e:
        obs.exc_violation("extra:" + mech, e, n=n)
        return
    if not obs.check(all(isinstance(v, torch.Tensor) and v.numel() == 1 and v.dtype.is_floating_point for v in (y, ysw)), "extra:shape:" + mech, "results %r, %r" % (y, ysw)):
        return
    ref = _exact(coefs, xl, xu)
    scale = abs(xu - xl) * sum(abs(ck) * max(abs(xl), abs(xu)) ** k for k, ck in enumerate(coefs))
    tol = 5000 * 2.3e-16 * scale
    obs.check(y.dtype == torch.float64 and ysw.dtype == torch.float64, "extra:dtype:" + mech,
              "one of the limits is a float64 tensor but the results are %s (limits %s) and %s (limits swapped)" % (y.dtype, form, ysw.dtype))
    err = abs(float(y) - ref)
    obs.check(err <= tol, "extra:value:" + mech, "degree-%d polynomial with %d points on [%r, %r] given as %s/%s: error %.3e (%.2e eps64 x scale) - the float64 limit "
              "was not used in float64" % (deg, n, xl, xu, fa, fb, err, err / (2.2e-16 * scale)), n=n)
    esw = abs(float(y) + float(ysw))
    obs.check(esw <= tol, "extra:swap:" + mech, "quad over [xl, xu] = %.17g, over [xu, xl] = %.17g: not opposite (sum %.3e = %.2e eps64 x scale)"
              % (float(y), float(ysw), esw, esw / (2.2e-16 * scale)), n=n)
    obs.count("extra_limprec_compared")
    if fa in ("num", "int"):
        obs.count("extra_limprec_number_lower")
    obs.note(n=n, limprec_worst_over_eps_scale=max(err, esw) / (2.2e-16 * scale))


def run_case(desc):
    obs = Obs(desc)
    if desc["kind"] == "limprec":
        run_limprec(desc, obs)
        return obs.result()
    if desc["kind"] == "mixtuple":
        run_mixtuple(desc, obs)
        return obs.result()
    if desc["kind"] == "bckopts":
        run_bckopts(desc, obs)
        return obs.result()
    if desc["kind"] == "inf32":
        run_inf32(desc, obs)
        return obs.result()
    if desc["kind"] == "limdtype":
        run_limdtype(desc, obs)
    else:
        run_alias(desc, obs)
    return obs.result()
