"""Shared pieces of the monitor kit: observation record, exception classification, seeds."""
import collections
import hashlib
import json
import os
import sys
import traceback
import warnings

REPO = os.path.realpath(os.environ.get("VERIF_REPO", "/repo"))


class HarnessBug(Exception):
    """Raised by a property module when its own assumptions fail (never a verdict on xitorch)."""


class Boom(Exception):
    """Private exception type injected by fault-injecting spies."""


class BoomBase(BaseException):
    """Same, but not derived from Exception (like KeyboardInterrupt, SystemExit, asyncio.CancelledError or a test framework's outcome
    exceptions): clean-up written as `except Exception` does not see it."""


def case_hash(desc):
    return hashlib.sha1(json.dumps(desc, sort_keys=True, default=str).encode()).hexdigest()[:12]


def sub_seed(seed, *parts):
    """Deterministic integer seed derived arithmetically (no PYTHONHASHSEED dependence)."""
    h = hashlib.sha256(("%d|" % seed + "|".join(str(p) for p in parts)).encode()).digest()
    return int.from_bytes(h[:4], "big") & 0x7FFFFFFF


def last_repo_frame(tb):
    """(file, function, line) of the innermost traceback frame that lies in the monitored repository."""
    found = None
    for fs in traceback.extract_tb(tb):
        fn = os.path.realpath(fs.filename)
        if fn.startswith(REPO + os.sep):
            found = (os.path.relpath(fn, REPO), fs.name, fs.lineno)
    return found


def passes_through_repo(tb):
    return last_repo_frame(tb) is not None


class Obs:
    """What one case observed.  `violation()` records a refutation together with a *mechanism key*:
    a short deterministic string naming which clause failed in which configuration class.  Known findings
    are matched on mechanism keys only (never on seeds or values)."""

    def __init__(self, desc=None):
        self.desc = desc
        self.viol = []
        self.counters = collections.Counter()
        self.obs = {}
        self.nontrivial = False
        self.skipped = None

    def violation(self, mech, msg, **data):
        self.viol.append({"mech": mech, "msg": msg, "data": _jsonable(data)})

    def check(self, cond, mech, msg, **data):
        self.counters["assertions_evaluated"] += 1
        if not cond:
            self.violation(mech, msg, **data)
        return bool(cond)

    def count(self, name, n=1):
        self.counters[name] += n

    def note(self, **kv):
        self.obs.update(_jsonable(kv))

    def skip(self, why):
        self.skipped = why

    def exc_violation(self, mech_prefix, exc, **data):
        """An exception escaped from a call that the property says must succeed."""
        fr = last_repo_frame(exc.__traceback__)
        where = "%s:%s" % (fr[0], fr[1]) if fr else "outside-repo"
        msg = "%s: %s" % (type(exc).__name__, str(exc)[:300])
        self.violation("%s:raise:%s@%s" % (mech_prefix, type(exc).__name__, where), msg, **data)

    def result(self):
        return {
            "verdict": "violation" if self.viol else ("skip" if self.skipped else "ok"),
            "nontrivial": bool(self.nontrivial) and not self.skipped,
            "viol": self.viol,
            "obs": self.obs,
            "counters": dict(self.counters),
            "skipped": self.skipped,
        }


def _jsonable(x):
    try:
        import torch
    except Exception:  # pragma: no cover
        torch = None
    if isinstance(x, dict):
        return {str(k): _jsonable(v) for k, v in x.items()}
    if isinstance(x, (list, tuple)):
        return [_jsonable(v) for v in x]
    if torch is not None and isinstance(x, torch.Tensor):
        if x.numel() <= 12:
            y = x.detach()
            if y.is_complex():
                return [str(complex(v)) for v in y.reshape(-1).tolist()]
            return y.reshape(-1).tolist()
        return "tensor%s" % (tuple(x.shape),)
    if isinstance(x, (int, float, str, bool)) or x is None:
        if isinstance(x, float) and (x != x or x in (float("inf"), float("-inf"))):
            return str(x)
        return x
    if isinstance(x, complex):
        return str(x)
    try:
        import numpy as np
        if isinstance(x, np.generic):
            return _jsonable(x.item())
        if isinstance(x, np.ndarray):
            return _jsonable(x.tolist()) if x.size <= 12 else "ndarray%s" % (x.shape,)
    except Exception:
        pass
    return str(x)


class WarnLog:
    """Records every warning raised inside the block and classifies xitorch's convergence warnings."""

    def __enter__(self):
        self._cm = warnings.catch_warnings(record=True)
        self.records = self._cm.__enter__()
        warnings.simplefilter("always")
        return self

    def __exit__(self, *a):
        return self._cm.__exit__(*a)

    def _names(self):
        return [(type(w.message).__name__, str(w.message)) for w in self.records]

    @property
    def convergence(self):
        out = []
        for name, msg in self._names():
            low = msg.lower()
            if name == "ConvergenceWarning" or "converge" in low:
                out.append((name, msg[:200]))
        return out

    @property
    def math(self):
        return [(n, m[:200]) for n, m in self._names() if n == "MathWarning"]

    @property
    def all(self):
        return [(n, m[:200]) for n, m in self._names()]
