"""Extra C13 scenarios: second-order gradients through a loss that is NONLINEAR in the integral (the cotangent that reaches quad's backward
then depends on the parameters itself), and parameters that depend on one another through autograd history (params=(a, g(a))).
Reference: the same n-point rule written in plain torch on the same leaves (scipy nodes), differentiated by autograd.

(The monitors of the other groups contract the first-order gradient with a constant vector; a defect that counts the dependence of the
cotangent on the parameters twice is invisible to them - found through a tester's side remark, see DESIGN 6b.)"""
import math
import random

import numpy as np
import torch

from vf.common import Obs, sub_seed, HarnessBug

DT = torch.float64


def cases(seed, tier):
    out = []
    n = 120 if tier == "quick" else 1200
    for i in range(n):
        rng = random.Random(sub_seed(seed, "c13x", i))
        out.append({"group": "extra", "kind": ["nonlinear_loss", "chained", "nonlinear_loss_chained"][i % 3], "seed": sub_seed(seed, "c13xs", i),
                    "n": rng.choice([3, 7, 20, 40]), "holder": ["explicit", "nn", "em"][(i // 3) % 3], "fam": rng.choice(["expdecay", "sinamp", "rational"]),
                    "limits": rng.choice(["num", "t0", "t0g", "t1g"]), "loss": rng.choice(["square", "exp", "product"])})
    # history: the integrand's object is given other tensors between the forward call and the backward pass (limits requiring grad: the
    # boundary terms of the backward evaluate the integrand, too)
    nl = 36 if tier == "quick" else 360
    for i in range(nl):
        rng = random.Random(sub_seed(seed, "c13l", i))
        out.append({"group": "extra", "kind": ["nonlinear_loss", "chained"][i % 2], "seed": sub_seed(seed, "c13ls", i), "n": rng.choice([3, 7, 20]),
                    "holder": "em", "fam": rng.choice(["expdecay", "sinamp", "rational"]), "limits": rng.choice(["t0g", "t1g", "t0g", "t0"]),
                    "loss": rng.choice(["square", "exp", "product"]), "late_rebind": True})
    # parameters of DIFFERENT precision (a float32 tensor listed before / after a float64 one): the backward rule must run in the precision of
    # the forward rule whatever the order of the parameters
    for i in range(24 if tier == "quick" else 240):
        rng = random.Random(sub_seed(seed, "c13m", i))
        out.append({"group": "extra", "kind": "mixdtype", "seed": sub_seed(seed, "c13ms", i), "n": rng.choice([7, 20, 40]), "f32first": i % 2 == 0,
                    "limits": rng.choice(["num", "t0"]), "holder": "explicit", "fam": "expdecay", "loss": "square"})
    # history: a backward pass in which the integrand raises (at a seeded evaluation), caught; the same object used again
    na = 36 if tier == "quick" else 360
    for i in range(na):
        rng = random.Random(sub_seed(seed, "c13a", i))
        out.append({"group": "extra", "kind": "nonlinear_loss", "seed": sub_seed(seed, "c13as", i), "n": rng.choice([3, 7, 20]),
                    "holder": ["em", "nn"][i % 2], "fam": rng.choice(["expdecay", "sinamp", "rational"]), "limits": rng.choice(["t0g", "t1g", "num", "t0"]),
                    "loss": rng.choice(["square", "exp", "product"]), "abort_first": True, "kfrac": rng.random(), "cg": rng.random() < 0.5})
    return out


class _Injected(Exception):
    pass


def _rule(n, xl, xu):
    xs, ws = np.polynomial.legendre.leggauss(n)
    xs = torch.tensor(xs, dtype=DT)
    ws = torch.tensor(ws, dtype=DT)
    return xs * (0.5 * (xu - xl)) + 0.5 * (xu + xl), ws * (0.5 * (xu - xl))


def _family(fam):
    if fam == "expdecay":
        return lambda x, p, q: p * torch.exp(-q * x)
    if fam == "sinamp":
        return lambda x, p, q: p * torch.sin(q * x + 0.3) + q * q * x
    return lambda x, p, q: p / (1.0 + q * x * x)


def _loss(kind, y):
    if kind == "square":
        return ((y - 0.3) ** 2).sum()
    if kind == "exp":
        return torch.exp(0.5 * y).sum()
    return y.prod() + y.sum()


def run_mixdtype(desc):
    from xitorch.integrate import quad
    obs = Obs(desc)
    tg = torch.Generator().manual_seed(desc["seed"])
    n = desc["n"]
    s32 = (0.5 + torch.rand(2, generator=tg, dtype=torch.float32)).requires_grad_()
    b = (0.4 * torch.randn(2, generator=tg, dtype=DT)).requires_grad_()
    xl, xu = 0.0, 1.0
    if desc["limits"] == "t0":
        xl, xu = torch.tensor(0.0, dtype=DT), torch.tensor(1.0, dtype=DT)
    if desc["f32first"]:
        fcn, params = (lambda x, s_, b_: s_.double() * torch.exp(3 * b_ * x)), (s32, b)
    else:
        fcn, params = (lambda x, b_, s_: s_.double() * torch.exp(3 * b_ * x)), (b, s32)
    mech = "mixdtype:%s:%s" % ("f32first" if desc["f32first"] else "f64first", desc["limits"])
    try:
        y = quad(fcn, xl, xu, params=params, n=n)
        C = torch.randn(y.shape, generator=tg, dtype=DT)
        gb, gs = torch.autograd.grad((y * C).sum(), (b, s32))
    except Exception as e:
        obs.exc_violation("extra:" + mech, e)
        obs.nontrivial = True
        return obs.result()
    xs, ws = _rule(n, torch.tensor(0.0, dtype=DT), torch.tensor(1.0, dtype=DT))
    b2, s2 = b.detach().clone().requires_grad_(), s32.detach().double().requires_grad_()
    yr = sum(w * s2 * torch.exp(3 * b2 * x) for x, w in zip(xs, ws))
    gbr, gsr = torch.autograd.grad((yr * C).sum(), (b2, s2))
    obs.check(y.dtype == DT, "extra:dtype:" + mech, "float64 integrand but the result is %s" % y.dtype)
    err = float((y.detach().double() - yr.detach()).abs().max())
    obs.check(err <= 1e-13 * (1 + float(yr.detach().abs().max())), "extra:value:" + mech, "value differs from the same rule by %.3e" % err)
    errb = float((gb.double() - gbr).abs().max())
    obs.check(errb <= 1e-12 * (1 + float(gbr.abs().max())), "extra:grad_f64:" + mech,
              "gradient w.r.t. the float64 parameter differs from the same rule's by %.3e (a float32 parameter is listed %s it)" % (errb, "before" if desc["f32first"] else "after"))
    errs = float((gs.double() - gsr).abs().max())
    obs.check(errs <= 1e-6 * (1 + float(gsr.abs().max())), "extra:grad_f32:" + mech, "gradient w.r.t. the float32 parameter differs by %.3e" % errs)
    obs.count("extra_mixdtype_compared")
    obs.nontrivial = True
    return obs.result()


def run_case(desc):
    if desc.get("kind") == "mixdtype":
        return run_mixdtype(desc)
    import xitorch
    from xitorch.integrate import quad
    obs = Obs(desc)
    tg = torch.Generator().manual_seed(desc["seed"])
    kind, fam, n = desc["kind"], desc["fam"], desc["n"]
    f0 = _family(fam)
    state = {"n": 0, "raise_at": None}

    def f(x, p_, q_):
        state["n"] += 1
        if state["raise_at"] is not None and state["n"] == state["raise_at"]:
            raise _Injected("injected failure at integrand evaluation %d" % state["n"])
        return f0(x, p_, q_)
    a = (0.5 + torch.rand(2, generator=tg, dtype=DT)).requires_grad_()
    b = (0.5 + torch.rand(2, generator=tg, dtype=DT)).requires_grad_()
    xlv, xuv = -0.2 + 0.3 * float(torch.rand((), generator=tg)), 0.8 + 0.5 * float(torch.rand((), generator=tg))
    lim = desc["limits"]
    if lim == "num":
        xl, xu, limleaves = xlv, xuv, []
    elif lim == "t0":
        xl, xu, limleaves = torch.tensor(xlv, dtype=DT), torch.tensor(xuv, dtype=DT), []
    elif lim == "t0g":
        xl, xu = torch.tensor(xlv, dtype=DT, requires_grad=True), torch.tensor(xuv, dtype=DT, requires_grad=True)
        limleaves = [xl, xu]
    else:
        xl, xu = torch.tensor([xlv], dtype=DT, requires_grad=True), torch.tensor([xuv], dtype=DT, requires_grad=True)
        limleaves = [xl, xu]
    chained = "chained" in kind

    def derive(a_, b_):
        # the tensors handed to quad: with `chained`, the second depends on the first through autograd history
        p = 1.2 * a_
        q = (b_ + 0.4 * p * p) if chained else (b_ * 1.0)
        return p, q
    p, q = derive(a, b)
    holder = desc["holder"]
    if holder == "explicit":
        fcn, params = f, (p, q)
    elif holder == "nn":
        if chained:
            holder = "em"          # an nn.Module can only hold leaves: chained tensors go into an EditableModule
        else:
            class M(torch.nn.Module):
                def __init__(self):
                    super().__init__()
                    self.p, self.q = torch.nn.Parameter(p.detach().clone()), torch.nn.Parameter(q.detach().clone())

                def forward(self, x):
                    return f(x, self.p, self.q)
            m = M()
            a, b = m.p, m.q          # the leaves are the module's parameters (p = its own leaf here)
            derive = lambda a_, b_: (a_, b_)
            fcn, params = m.forward, ()
    if holder == "em":
        class E(xitorch.EditableModule):
            def __init__(self):
                self.p, self.held = p, [q]

            def forward(self, x):
                return f(x, self.p, self.held[0])

            def getparamnames(self, methodname, prefix=""):
                return [prefix + "p", prefix + "held[0]"]
        e = E()
        fcn, params = e.forward, ()
    mech = "%s:%s:%s:%s%s%s" % (kind, holder, lim, desc["loss"], ":late_rebind" if desc.get("late_rebind") else "", ":after_abort" if desc.get("abort_first") else "")
    leaves = [a, b] + limleaves
    names = ["a", "b"] + (["xl", "xu"] if limleaves else [])
    if desc.get("abort_first"):
        # clean run to count the evaluations, then a run whose backward raises at a seeded evaluation (caught), then the monitored run below
        try:
            state["n"] = 0
            y_ = quad(fcn, xl, xu, params=params, n=n)
            m1 = state["n"]
            torch.autograd.grad(_loss(desc["loss"], y_.reshape(-1)), leaves, create_graph=bool(desc.get("cg")), retain_graph=True, allow_unused=True)
            m2 = state["n"]
            if m2 > m1:
                state["n"], state["raise_at"] = 0, m1 + 1 + int(desc["kfrac"] * (m2 - m1 - 1e-9))
                try:
                    y_ = quad(fcn, xl, xu, params=params, n=n)
                    torch.autograd.grad(_loss(desc["loss"], y_.reshape(-1)), leaves, create_graph=bool(desc.get("cg")), retain_graph=True, allow_unused=True)
                except _Injected:
                    obs.count("extra_abort_injected")
                except Exception as e_:
                    obs.note(wrapped="%s: %s" % (type(e_).__name__, str(e_)[:80]))
                    obs.count("extra_abort_injected")
                state["raise_at"] = None
        except Exception as e:
            obs.exc_violation("abort_clean_run:" + mech, e)
            obs.nontrivial = True
            return obs.result()
    try:
        y = quad(fcn, xl, xu, params=params, n=n)
        L = _loss(desc["loss"], y.reshape(-1))
        if desc.get("late_rebind"):
            e.p, e.held = p * 1.3 + 0.2, [q * 0.7]            # the same object, other tensors, BEFORE the backward pass
            obs.count("extra_late_rebind_histories")
        g = torch.autograd.grad(L, leaves, create_graph=True, allow_unused=True)
    except Exception as e:
        obs.exc_violation("first:" + mech, e)
        obs.nontrivial = True
        return obs.result()
    # ---- reference: the same rule in plain torch from the same leaf values
    a2, b2 = a.detach().clone().requires_grad_(), b.detach().clone().requires_grad_()
    lim2 = [l.detach().clone().requires_grad_() for l in limleaves]
    xl2, xu2 = (lim2[0], lim2[1]) if lim2 else (torch.tensor(xlv, dtype=DT), torch.tensor(xuv, dtype=DT))
    p2, q2 = derive(a2, b2)
    if lim2:
        # limits enter through the Leibniz rule in xitorch (not through the nodes): reference = rule with frozen nodes for the parameters
        # plus the exact boundary terms; writing y as rule(params; frozen limits) + u(xu)-terms is done by a custom function below
        y2 = _RuleWithLeibniz.apply(f, n, xl2.reshape(()), xu2.reshape(()), p2, q2)
    else:
        xs, ws = _rule(n, xl2, xu2)
        y2 = sum(w * f(x, p2, q2) for x, w in zip(xs, ws))
    leaves2 = [a2, b2] + lim2
    L2 = _loss(desc["loss"], y2.reshape(-1))
    g2 = torch.autograd.grad(L2, leaves2, create_graph=True, allow_unused=True)
    verr = float((y.detach().reshape(-1) - y2.detach().reshape(-1)).abs().max())
    if verr > 1e-11 * (1 + float(y2.detach().abs().max())):
        raise HarnessBug("reference rule and quad disagree on the value (%.3e)" % verr)
    tol = 1e-10
    sc = max(1.0, max(float(x.abs().max()) for x in g2 if x is not None))
    for nme, gi, ri, l in zip(names, g, g2, leaves):
        gi = torch.zeros_like(l) if gi is None else gi
        ri = torch.zeros_like(l) if ri is None else ri.reshape(l.shape)
        err = float((gi.detach() - ri.detach()).abs().max())
        obs.check(err <= tol * sc, "grad1:%s:%s" % (nme, mech), "first-order gradient w.r.t. %s differs from the derivative of the same rule by %.3e (scale %.2e)" % (nme, err, sc))
    obs.count("extra_first_order_compared", len(names))
    if lim2:
        obs.nontrivial = True          # second order with limit leaves is covered by the main groups (the reference above is first order only)
        return obs.result()
    # ---- Jacobian-vector product by the double-backward trick: the first-level cotangent is exactly zero
    try:
        v0 = torch.zeros_like(y).requires_grad_()
        gz = torch.autograd.grad(y, leaves[:2], grad_outputs=v0, create_graph=True, allow_unused=True)
        U = [torch.randn(l.shape, generator=tg, dtype=DT) for l in leaves[:2]]
        have = [(gi, u) for gi, u in zip(gz, U) if gi is not None and gi.requires_grad]
        jvp = torch.autograd.grad([a_ for a_, _ in have], v0, grad_outputs=[u_ for _, u_ in have])[0] if have else torch.zeros_like(y)
        v2 = torch.zeros_like(y2).requires_grad_()
        gz2 = torch.autograd.grad(y2, leaves2[:2], grad_outputs=v2, create_graph=True)
        jvp2 = torch.autograd.grad(list(gz2), v2, grad_outputs=U)[0]
        err = float((jvp.reshape(-1) - jvp2.reshape(-1)).abs().max())
        obs.check(err <= 1e-9 * (1 + float(jvp2.abs().max())), "jvp_zero_cotangent:" + mech,
                  "J.u by double backward (first-level cotangent exactly zero) differs from the same rule's by %.3e" % err)
        obs.count("extra_jvp_compared")
    except Exception as e:
        obs.exc_violation("jvp_zero_cotangent:" + mech, e)
    V = [torch.randn(l.shape, generator=tg, dtype=DT) for l in leaves[:2]]
    try:
        H = sum((gi * v).sum() for gi, v in zip(g[:2], V) if gi is not None and gi.requires_grad)
        gg = torch.autograd.grad(H, leaves[:2], allow_unused=True) if isinstance(H, torch.Tensor) and H.requires_grad else [None, None]
    except Exception as e:
        obs.exc_violation("second:" + mech, e)
        obs.nontrivial = True
        return obs.result()
    H2 = sum((gi * v).sum() for gi, v in zip(g2[:2], V) if gi is not None)
    gg2 = torch.autograd.grad(H2, leaves2[:2], allow_unused=True)
    sc2 = max(1.0, max(float(x.abs().max()) for x in gg2 if x is not None))
    for nme, gi, ri, l in zip(names[:2], gg, gg2, leaves[:2]):
        gi = torch.zeros_like(l) if gi is None else gi
        ri = torch.zeros_like(l) if ri is None else ri
        err = float((gi - ri).abs().max())
        obs.check(err <= 10 * tol * sc2, "grad2:%s:%s" % (nme, mech),
                  "Hessian-vector product of a loss that is nonlinear in the integral differs from the same rule's by %.3e (scale %.2e) w.r.t. %s" % (err, sc2, nme))
    obs.count("extra_second_order_compared", 2)
    obs.nontrivial = True
    return obs.result()


class _RuleWithLeibniz(torch.autograd.Function):
    """y = n-point rule on [xl, xu]; derivative w.r.t. the parameters = derivative of the rule with frozen limits, derivative w.r.t. the
    limits = +f(xu), -f(xl) (what the statement prescribes).  Only first order w.r.t. the limits is taken from it."""

    @staticmethod
    def forward(ctx, f, n, xl, xu, p, q):
        with torch.enable_grad():
            pd, qd = p.detach().requires_grad_(), q.detach().requires_grad_()
            xs, ws = _rule(n, xl.detach(), xu.detach())
            y = sum(w * f(x, pd, qd) for x, w in zip(xs, ws))
        ctx.f, ctx.y, ctx.pd, ctx.qd = f, y, pd, qd
        ctx.save_for_backward(xl, xu, p, q)
        return y.detach()

    @staticmethod
    def backward(ctx, gy):
        xl, xu, p, q = ctx.saved_tensors
        gp, gq = torch.autograd.grad(ctx.y, [ctx.pd, ctx.qd], grad_outputs=gy, allow_unused=True)
        with torch.no_grad():
            gl = -(gy * ctx.f(xl, p, q)).sum()
            gu = (gy * ctx.f(xu, p, q)).sum()
        return None, None, gl, gu, gp, gq
