"""Worker: fresh interpreter, runs its shard of case descriptors sequentially, one JSON line per case."""
import importlib
import json
import os
import signal
import sys
import time
import traceback


class CaseTimeout(BaseException):  # not an Exception: monitors catching Exception around the monitored call must not see it
    pass


def _alarm(signum, frame):
    raise CaseTimeout()


def run_one(mod, desc, per_case_timeout):
    import torch
    from vf.common import HarnessBug, passes_through_repo, last_repo_frame
    t0 = time.time()
    torch.manual_seed(int(desc.get("seed", 0)))
    signal.signal(signal.SIGALRM, _alarm)
    signal.setitimer(signal.ITIMER_REAL, per_case_timeout)
    try:
        res = mod.run_case(desc)
    except CaseTimeout:
        res = {"verdict": "timeout", "nontrivial": False, "viol": [], "obs": {}, "counters": {}}
    except HarnessBug as e:
        res = {"verdict": "error", "nontrivial": False, "viol": [], "obs": {},
               "counters": {}, "error": "HarnessBug: %s" % e, "tb": traceback.format_exc()[-2000:]}
    except Exception as e:  # noqa
        # an exception that travelled through the monitored repository on an input the property covers is a
        # refutation of "the call returns ..."; one raised purely inside the monitor is a bug of the monitor
        fr = last_repo_frame(e.__traceback__)
        if fr is not None:
            res = {"verdict": "violation", "nontrivial": True, "obs": {}, "counters": {},
                   "viol": [{"mech": "uncaught:raise:%s@%s:%s" % (type(e).__name__, fr[0], fr[1]),
                             "msg": "%s: %s" % (type(e).__name__, str(e)[:300]),
                             "data": {"tb": traceback.format_exc()[-1500:]}}]}
        else:
            res = {"verdict": "error", "nontrivial": False, "viol": [], "obs": {}, "counters": {},
                   "error": "%s: %s" % (type(e).__name__, str(e)[:300]), "tb": traceback.format_exc()[-2000:]}
    finally:
        signal.setitimer(signal.ITIMER_REAL, 0)
    res["cid"] = desc["cid"]
    res["wall"] = round(time.time() - t0, 4)
    return res


def main():
    pid, shard_path, out_path = sys.argv[1:4]
    per_case_timeout = float(sys.argv[4]) if len(sys.argv) > 4 else 120.0
    import torch
    torch.set_num_threads(1)
    import warnings
    warnings.filterwarnings("default")
    mod = importlib.import_module("vf.props.%s" % pid.lower())
    with open(shard_path) as f:
        cases = json.load(f)
    with open(out_path, "w") as out:
        import xitorch
        out.write(json.dumps({"hello": True, "xitorch_file": os.path.realpath(xitorch.__file__)}) + "\n")
        for desc in cases:
            res = run_one(mod, desc, per_case_timeout)
            out.write(json.dumps(res, default=str) + "\n")
            out.flush()
        out.write(json.dumps({"done": True}) + "\n")


if __name__ == "__main__":
    main()
