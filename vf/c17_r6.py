"""C17, dimensions added after seeding round 6.

group "subst_exc": a `uselinopparams` block of a jac / hess operator (or of its .H) that is LEFT BY AN EXCEPTION - raised by the user's function
    at a seeded evaluation at the substituted tensors, or by the caller's own code after a seeded number of products inside the block - and
    the same operator used afterwards: it must still be the Jacobian / Hessian AT ITS ORIGINAL POINT (all products, fullmatrix, .H, first and
    second derivatives w.r.t. the original leaves, against torch.autograd.functional at the original leaves), hold its original tensor
    objects, and a later completed substitution must work as usual.
group "cplx": complex128 points with holomorphic functions (sin / exp / products / polynomials with complex coefficients) for wide, square,
    tall, 1xN and Nx1 Jacobians: mv, mm, fullmatrix = products with the dense complex Jacobian J = df/dz; rmv, rmm, .H = products with
    its conjugate transpose (the LinearOperator convention).  J is computed independently of complex autograd conventions from the
    real/imaginary split (d Re f/d Re z + i d Im f/d Re z, with the Cauchy-Riemann identity verified on the monitor's side)."""
import random

import torch

from vf.common import Obs, sub_seed, WarnLog, HarnessBug

CD = torch.complex128
VBATCH = [(), (2,), (2, 3)]
KINDS = ["pure", "nn", "editable"]
PROD10 = ["mv", "rmv", "mm", "rmm", "fullmatrix", "H.mv", "H.mm", "H.rmv", "H.rmm", "H.fullmatrix"]
CLASSES = ["wide", "square", "tall", "row", "col"]
POINTSHAPES = {"wide": [(2, 3), (4,), (2, 1, 3), (5,)], "square": [(3,), (2, 2), (), (2,)], "tall": [(2,), (3,), (2, 1)],
               "row": [(3,), (2, 3), (2, 2)], "col": [(), (1,), (1, 1)]}
OTHERSHAPES = [(), (2,), (2, 2), (1, 3)]


def cases(seed, tier):
    out = []
    big = tier != "quick"
    n_exc, n_c = (150, 150) if not big else (1600, 1600)
    for i in range(n_exc):
        rng = random.Random(sub_seed(seed, "c17e", i))
        out.append({"group": "subst_exc", "seed": sub_seed(seed, "c17es", i), "spec": rng.randrange(9), "out": rng.randrange(6),
                    "kind": KINDS[i % 3], "hess": rng.random() < 0.3, "via": rng.choice(["op", "op", "H"]),
                    "which": rng.choice(["all", "all", "point_only", "others_only"]), "how": ["fcn", "caller"][(i // 3) % 2],
                    "at": rng.choice([0, 1, 2, 3]), "base_exc": rng.random() < 0.25, "vb": rng.randrange(3), "r": rng.choice([1, 2]),
                    "dprod": rng.choice(PROD10)})
    for i in range(n_c):
        rng = random.Random(sub_seed(seed, "c17c", i))
        out.append({"group": "cplx", "seed": sub_seed(seed, "c17cs", i), "cls": CLASSES[i % 5], "kind": KINDS[(i // 5) % 3],
                    "idxs": ["int", "int", "none", "list"][(i // 15) % 4], "nother": rng.choice([0, 1, 1, 2]), "vb": rng.randrange(3),
                    "r": rng.choice([1, 2, 3]), "dprod": rng.choice(PROD10)})
    return out


def run_case(desc):
    if desc["group"] == "subst_exc":
        return run_subst_exc(desc)
    if desc["group"] == "cplx":
        return run_cplx(desc)
    raise HarnessBug("group %s" % desc["group"])


# ------------------------------------------------------------------------------------------ substitution left by an exception
class _TrialRejected(Exception):
    pass


class _TrialAborted(BaseException):
    pass


def run_subst_exc(desc):
    import xitorch
    from vf.props import c17 as B
    obs = Obs(desc)
    rng = random.Random(desc["seed"])
    tgen = torch.Generator().manual_seed(desc["seed"])
    is_hess = bool(desc["hess"])
    tag = "hess" if is_hess else "jac"
    prob = B.Problem(desc, rng, tgen, scalar_out=is_hess)
    kind, via, how = prob.kind, desc["via"], desc["how"]
    obs.count("kind_%s" % kind)
    idx = rng.choice(prob.diff_idxs)
    name = prob.leaf_of(idx)
    data = dict(kind=kind, idx=idx, via=via, which=desc["which"], tag=tag, how=how, at=desc["at"], base_exc=desc["base_exc"])
    with WarnLog():
        try:
            op0 = B.call_builder(obs, prob, is_hess, idx)
            if not isinstance(op0, xitorch.LinearOperator):
                obs.violation("ret_type:%s:int" % tag, "idxs=%d returned %s" % (idx, type(op0).__name__), **data)
                return obs.result()
            A = op0.H if via == "H" else op0
            ps = list(A.getlinopparams())
        except Exception as e:
            B.guard_exc(obs, "construct:%s:%s:subst_exc" % (tag, kind), e, **data)
            obs.nontrivial = True
            return obs.result()
    obs.count("operators_checked")
    pnames = []
    for p in ps:
        found = [k for k, v in prob.leaves.items() if v is p]
        if not found:
            obs.violation("linopparams:foreign:%s:%s" % (tag, kind), "getlinopparams returned a tensor that is none of the function's inputs", **data)
            return obs.result()
        pnames.append(found[0])
    x = prob.leaves[name]
    nin = x.numel()
    nout = nin if is_hess else prob.m
    vb = VBATCH[desc["vb"]]
    transposed = via == "H" and not is_hess
    vin, vout = (nout, nin) if transposed else (nin, nout)
    v, u, V, U = B.make_vectors(vout, vin, vb, desc["r"], tgen)

    def dense_A(values):
        Jd = prob.dense(name, values, hess=is_hess)
        return Jd.transpose(-2, -1) if transposed else Jd

    LABEL = {"before": "before any substitution", "after_exc": "after a uselinopparams block was left by an exception",
             "during2": "inside a later, completed substitution", "restored2": "after that later substitution ended"}

    def check_products(Ad, label, count_name):
        nzz = False
        for pname in PROD10:
            mech = "subst_exc:%s:%s:%s:%s:%s:%s" % (label, how, tag, via, pname, kind)
            try:
                got = B.product(A, pname, v, u, V, U)
            except BaseException as e:
                if isinstance(e, (_TrialRejected, _TrialAborted)):
                    obs.violation(mech + ":stale_trap", "%s %s re-raised the exception of the abandoned trial evaluation" % (pname, LABEL[label]), **data)
                    continue
                if not isinstance(e, Exception):
                    raise
                B.guard_exc(obs, mech, e, **data)
                continue
            e_, nz = B.compare(obs, got, B.product_ref(Ad, pname, v, u, V, U), mech, "%s %s" % (pname, LABEL[label]), B.VTOL, **data)
            nzz = nzz or nz
            obs.count(count_name)
        return nzz

    A_orig = dense_A({})
    nz0 = check_products(A_orig, "before", "products_compared")

    def substitutes(force_all):
        new, values = [], {}
        for p, pn in zip(ps, pnames):
            change = force_all or desc["which"] == "all" or (desc["which"] == "point_only") == (pn == name)
            if change:
                t = (p.detach() + 0.3 * B.rand_like_shape(tuple(p.shape), tgen)).requires_grad_()
                values[pn] = t
            else:
                t = p
            new.append(t)
        return new, values

    # ---- the block that is left by an exception
    new, values = substitutes(False)
    if not values:
        raise HarnessBug("nothing substituted")
    exc_cls = _TrialAborted if desc["base_exc"] else _TrialRejected
    at = desc["at"]
    state = {"left": at + 1 if how == "fcn" else -1, "fired": False}

    def trap():
        state["left"] -= 1
        if state["left"] == 0:
            state["fired"] = True
            raise exc_cls("function rejects the trial values")
    seq = [rng.choice(["mv", "rmv", "mm", "rmm", "fullmatrix"]) for _ in range(5)]
    A_new = dense_A(values) if how == "caller" and at > 0 else None
    raised = None
    ncalls0 = prob.ncalls
    try:
        with A.uselinopparams(*new):
            prob.trap = trap if how == "fcn" else None
            for k, pname in enumerate(seq):
                if how == "caller" and k == at:
                    raise exc_cls("caller rejects the trial values")
                got = B.product(A, pname, v, u, V, U)
                if A_new is not None:
                    B.compare(obs, got, B.product_ref(A_new, pname, v, u, V, U), "subst_exc:during:%s:%s:%s:%s" % (tag, via, pname, kind),
                              "%s inside the block" % pname, B.VTOL, **data)
    except (_TrialRejected, _TrialAborted) as e:
        raised = e
    except Exception as e:
        prob.trap = None
        B.guard_exc(obs, "subst_exc:block:%s:%s:%s:%s" % (how, tag, via, kind), e, **data)
        obs.nontrivial = True
        return obs.result()
    finally:
        prob.trap = None
    if raised is None or (how == "fcn" and not state["fired"]):
        raise HarnessBug("the exception that should leave the block was not raised (how=%s at=%d, %d evaluations)" % (how, at, prob.ncalls - ncalls0))
    obs.count("subst_exc_left_by_%s" % how)
    if desc["base_exc"]:
        obs.count("subst_exc_baseexception")
    if how == "fcn":
        obs.count("subst_exc_trial_evaluations", prob.ncalls - ncalls0)

    # ---- afterwards: the operator is the Jacobian / Hessian at its ORIGINAL point, and holds its original tensors
    after = list(A.getlinopparams())
    same = len(after) == len(ps) and all(a is b for a, b in zip(after, ps))
    obs.check(same, "subst_exc:restore_identity:%s:%s:%s" % (how, tag, kind),
              "after a uselinopparams block left by an exception the operator holds %d substituted tensor(s) instead of its original ones"
              % sum(1 for a, b in zip(after, ps) if a is not b), **data)
    if prob.obj is not None:
        held = [getattr(prob.obj, nm) for nm in ("W1", "W2", "cv")]
        obs.check(all(a is b for a, b in zip(held, prob.W)), "subst_exc:restore_object:%s:%s:%s" % (how, tag, kind),
                  "after a uselinopparams block left by an exception the %s no longer holds its original parameter tensors" % kind, **data)
    nz1 = check_products(A_orig, "after_exc", "subst_exc_products_compared")
    # derivatives of one product w.r.t. the original leaves and the vectors
    pname = desc["dprod"]
    vg, ug, Vg, Ug = B.make_vectors(vout, vin, vb, desc["r"], tgen, requires_grad=True)
    names = list(prob.leaves.keys())
    tensors = [prob.leaves[n] for n in names] + [vg, ug, Vg, Ug]
    names = names + ["vec_v", "vec_u", "mat_V", "mat_U"]
    rolefn = lambda nm: "vec" if nm[:3] in ("vec", "mat") else prob.role(nm, name)     # noqa: E731
    ref = B.product_ref(A_orig, pname, vg, ug, Vg, Ug)
    C = B.rand_like_shape(tuple(ref.shape), tgen)
    Ds = [B.rand_like_shape(tuple(t.shape), tgen) for t in tensors]
    r1 = B.grads((ref * C).sum(), tensors, True)
    Sr = sum((gi * di).sum() for gi, di in zip(r1, Ds) if gi is not None and gi.requires_grad)
    r2 = B.grads(Sr, tensors, False)
    grad_nz = False
    gmech = "subst_exc_grad:%s:%s:%s:%s:%s" % (how, tag, via, pname, kind)
    try:
        got = B.product(A, pname, vg, ug, Vg, Ug)
        if isinstance(got, torch.Tensor) and tuple(got.shape) == tuple(ref.shape):
            g1 = B.grads((got * C).sum(), tensors, True)
            S = sum((gi * di).sum() for gi, di in zip(g1, Ds) if gi is not None and gi.requires_grad)
            g2 = B.grads(S, tensors, False)
            e_, grad_nz = B.compare_grads(obs, g1, r1, names, tensors, rolefn, gmech, "first", data)
            B.compare_grads(obs, g2, r2, names, tensors, rolefn, gmech, "second", data)
            obs.count("subst_exc_grad_compared")
    except BaseException as e:
        if isinstance(e, (_TrialRejected, _TrialAborted)):
            obs.violation(gmech + ":stale_trap", "the product re-raised the exception of the abandoned trial evaluation", **data)
        elif isinstance(e, Exception):
            B.guard_exc(obs, gmech, e, **data)
        else:
            raise

    # ---- a later, completed substitution of everything behaves as usual and restores again
    new2, values2 = substitutes(True)
    A_new2 = dense_A(values2)
    try:
        with A.uselinopparams(*new2):
            check_products(A_new2, "during2", "subst_exc_later_products_compared")
    except Exception as e:
        B.guard_exc(obs, "subst_exc:during2:%s:%s:%s:%s" % (how, tag, via, kind), e, **data)
    check_products(A_orig, "restored2", "subst_exc_later_products_compared")
    after = list(A.getlinopparams())
    obs.check(len(after) == len(ps) and all(a is b for a, b in zip(after, ps)), "subst_exc:restore_identity_later:%s:%s:%s" % (how, tag, kind),
              "after the later substitution the operator does not hold its original tensors", **data)
    obs.note(fcn_calls=prob.ncalls, nparams=len(ps), seq=seq)
    obs.nontrivial = nz0 and nz1 and grad_nz and nin * nout >= 2
    return obs.result()


# --------------------------------------------------------------------------------------------- complex holomorphic functions
def crand(shape, tgen, scale=1.0):
    shape = tuple(shape)
    re = torch.randn(*shape, dtype=torch.float64, generator=tgen) if shape else torch.randn((), dtype=torch.float64, generator=tgen)
    im = torch.randn(*shape, dtype=torch.float64, generator=tgen) if shape else torch.randn((), dtype=torch.float64, generator=tgen)
    return torch.complex(re, im) * (scale * 0.7071067811865476)


def numel(shape):
    n = 1
    for s in shape:
        n *= s
    return n


def shape_class(nout, nin):
    if nout == nin:
        return "square"
    if nout == 1:
        return "row"
    if nin == 1:
        return "col"
    return "wide" if nout < nin else "tall"


def cproduct_ref(Jd, name, v, u, V, U):
    """LinearOperator convention: mv/mm/fullmatrix with J, rmv/rmm/.H with the conjugate transpose of J"""
    Jt = Jd.transpose(-2, -1)
    Jc = Jd.conj()
    Jh = Jc.transpose(-2, -1)
    if name in ("mv", "H.rmv"):
        return torch.matmul(v, Jt)
    if name in ("rmv", "H.mv"):
        return torch.matmul(u, Jc)
    if name in ("mm", "H.rmm"):
        return torch.matmul(Jd, V)
    if name in ("rmm", "H.mm"):
        return torch.matmul(Jh, U)
    if name == "fullmatrix":
        return Jd
    if name == "H.fullmatrix":
        return Jh
    raise HarnessBug(name)


def holo_dense(f, x, create_graph, verify=False):
    """dense complex derivative df/dz (nout, nin) of a holomorphic f at x from the real/imaginary split:
    J = d Re f / d Re z + i d Im f / d Re z (differentiable w.r.t. x and everything f closes over when create_graph)"""
    xr, xi = x.real, x.imag

    def g(a):
        y = f(torch.complex(a, xi))
        return y.real.reshape(-1), y.imag.reshape(-1)
    Jr, Ji = torch.autograd.functional.jacobian(g, xr, create_graph=create_graph)
    n = x.numel()
    J = torch.complex(Jr.reshape(-1, n), Ji.reshape(-1, n))
    if verify:
        def g2(b):
            y = f(torch.complex(xr.detach(), b))
            return y.real.reshape(-1), y.imag.reshape(-1)
        with torch.no_grad():
            pass
        Kr, Ki = torch.autograd.functional.jacobian(g2, xi.detach())
        K = torch.complex(Kr.reshape(-1, n), Ki.reshape(-1, n))
        dev = float((K - 1j * J.detach()).abs().max()) if J.numel() else 0.0
        if dev > 1e-11 * (1 + float(J.detach().abs().max())):
            raise HarnessBug("generated function is not holomorphic (Cauchy-Riemann residual %.2e)" % dev)
    return J


def run_cplx(desc):
    import xitorch
    from xitorch.grad import jac
    from vf.props import c17 as B
    obs = Obs(desc)
    rng = random.Random(desc["seed"])
    tgen = torch.Generator().manual_seed(desc["seed"])
    cls, kind = desc["cls"], desc["kind"]
    obs.count("kind_%s" % kind)
    pshape = rng.choice(POINTSHAPES[cls])
    nin0 = numel(pshape)
    m = {"wide": lambda: rng.randint(2, nin0 - 1), "square": lambda: nin0, "tall": lambda: nin0 + rng.randint(1, 3), "row": lambda: 1,
         "col": lambda: rng.randint(2, 4)}[cls]()
    outshape = rng.choice({1: [(), (1,), (1, 1)], 4: [(4,), (2, 2)], 6: [(6,), (2, 3)]}.get(m, [(m,)]))
    shapes = [rng.choice(OTHERSHAPES) for _ in range(desc["nother"])]
    ppos = rng.randrange(len(shapes) + 1)
    shapes.insert(ppos, pshape)
    args = [crand(s, tgen).requires_grad_() for s in shapes]
    scal = rng.choice([None, 0.7, -1.1])          # a non-differentiable float argument (last position), or none
    n = sum(numel(s) for s in shapes)
    nn_kind = kind == "nn"
    mk = (lambda t: torch.nn.Parameter(t)) if nn_kind else (lambda t: t.requires_grad_())
    W = [mk(crand((m, n), tgen, 0.4)), mk(crand((m, n), tgen, 0.4)), mk(crand((m,), tgen))]
    nargs = len(args)

    def body(a, W):
        W1, W2, cv = W
        z = torch.cat([t.reshape(-1) for t in a[:nargs]])
        s = a[nargs] if len(a) > nargs else 1.0
        out = torch.sin(W1 @ z + cv) * torch.exp(0.3 * (W2 @ z)) * s + 0.1 * (z * z).sum() * cv * cv + (W2 @ (z * z)) * 0.2
        return out.reshape(outshape)
    ncalls = [0]
    targs = tuple(args) + ((scal,) if scal is not None else ())
    if kind == "pure":
        na = len(targs)

        def fcn(*a):
            ncalls[0] += 1
            return body(a[:na], a[na:])
        params = targs + tuple(W)
    else:
        if nn_kind:
            class Mod(torch.nn.Module):
                def __init__(self, W):
                    super().__init__()
                    self.W1, self.W2, self.cv = W

                def forward(self, *a):
                    ncalls[0] += 1
                    return body(a, [self.W1, self.W2, self.cv])
        else:
            class Mod(xitorch.EditableModule):
                def __init__(self, W):
                    self.W1, self.W2, self.cv = W

                def forward(self, *a):
                    ncalls[0] += 1
                    return body(a, [self.W1, self.W2, self.cv])

                def getparamnames(self, methodname, prefix=""):
                    return [prefix + "W1", prefix + "W2", prefix + "cv"]
        obj = Mod(W)
        fcn = obj.forward
        params = targs
    leaves = {("arg%d" % j): a for j, a in enumerate(args)}
    for nm, w in zip(("W1", "W2", "cv"), W):
        leaves[nm] = w
    diff = [j for j, p in enumerate(params) if isinstance(p, torch.Tensor) and p.requires_grad]
    mode = desc["idxs"]
    if mode == "int":
        idxs, sel = ppos, [ppos]
    elif mode == "none":
        idxs, sel = None, list(diff)
    else:
        others = [j for j in diff if j != ppos]
        sel = [ppos] + rng.sample(others, rng.randint(0, min(2, len(others))))
        rng.shuffle(sel)
        idxs = list(sel)
    obs.count("idxs_%s" % mode)
    with WarnLog():
        try:
            res = jac(fcn, params, idxs=idxs)
        except Exception as e:
            B.guard_exc(obs, "cplx:construct:%s:%s" % (kind, mode), e, idxs=str(idxs))
            obs.nontrivial = True
            return obs.result()
    ops = [res] if mode == "int" else (list(res) if isinstance(res, (list, tuple)) else None)
    if ops is None or len(ops) != len(sel) or not all(isinstance(o, xitorch.LinearOperator) for o in ops):
        obs.violation("cplx:ret_type:%s" % mode, "idxs=%s returned %s" % (idxs, type(res).__name__))
        return obs.result()

    def f_of(j, values=None):
        """the function of its j-th parameter alone, the other leaves as they are (plain torch, no xitorch)"""
        def f(t):
            pp = list(params)
            pp[j] = t
            if kind == "pure":
                return body(pp[:len(targs)], pp[len(targs):])
            return body(pp, W)
        return f
    vb = VBATCH[desc["vb"]]
    r = desc["r"]
    dsel = sel.index(ppos)
    any_nz = grad_nz = False
    worst = 0.0
    for k, (op, j) in enumerate(zip(ops, sel)):
        x = params[j]
        nin = x.numel()
        nout = m
        c = shape_class(nout, nin)
        data = dict(kind=kind, idx=j, inshape=list(x.shape), outshape=list(outshape), vbatch=list(vb), idxs=str(idxs), cls=c)
        obs.count("operators_checked")
        obs.check(tuple(op.shape) == (nout, nin), "cplx:shape", "operator shape %s, expected (%d, %d)" % (tuple(op.shape), nout, nin), **data)
        if tuple(op.shape) != (nout, nin):
            continue
        Jd = holo_dense(f_of(j), x, create_graph=(k == dsel), verify=True)
        if float(Jd.detach().imag.abs().max()) < 1e-6:
            raise HarnessBug("complex case with a real Jacobian")
        v, u = crand(vb + (nin,), tgen), crand(vb + (nout,), tgen)
        V, U = crand(vb + (nin, r), tgen), crand(vb + (nout, r), tgen)
        for pname in PROD10:
            mech = "cplx:prod:%s:%s:%s" % (pname, c, kind)
            try:
                got = B.product(op, pname, v, u, V, U)
            except Exception as e:
                B.guard_exc(obs, mech, e, **data)
                continue
            if isinstance(got, torch.Tensor):
                obs.check(got.dtype == CD, "cplx:dtype:%s:%s" % (pname, c), "%s of a complex128 Jacobian has dtype %s" % (pname, got.dtype), **data)
            e_, nz = B.compare(obs, got, cproduct_ref(Jd.detach(), pname, v, u, V, U), mech,
                               "%s of the jac operator of a holomorphic function (%s Jacobian %dx%d)" % (pname, c, nout, nin), B.VTOL, **data)
            worst = max(worst, e_)
            any_nz = any_nz or nz
            obs.count("cplx_products_compared")
            if pname == "fullmatrix":
                obs.count("cplx_fullmatrix_%s" % c)
        obs.count("cplx_ops_%s" % c)
        if k != dsel:
            continue
        # ---- derivatives of the real part of a random contraction of one product w.r.t. all complex leaves and the vectors
        pname = desc["dprod"]
        for t in (v, u, V, U):
            t.requires_grad_()
        names = list(leaves.keys()) + ["vec_v", "vec_u", "mat_V", "mat_U"]
        tensors = list(leaves.values()) + [v, u, V, U]
        pt = "arg%d" % j
        rolefn = lambda nm: "vec" if nm[:3] in ("vec", "mat") else ("point" if nm == pt else ("otherarg" if nm.startswith("arg") else      # noqa: E731
                                                                                                ("param" if kind == "pure" else "objparam")))
        ref = cproduct_ref(Jd, pname, v, u, V, U)
        C = crand(tuple(ref.shape), tgen)
        Ds = [crand(tuple(t.shape), tgen) for t in tensors]
        r1 = B.grads((ref * C).sum().real, tensors, True)
        Sr = sum((gi * di).sum().real for gi, di in zip(r1, Ds) if gi is not None and gi.requires_grad)
        r2 = B.grads(Sr, tensors, False)
        gmech = "cplx:grad:%s:%s:%s" % (pname, c, kind)
        try:
            got = B.product(op, pname, v, u, V, U)
            if not isinstance(got, torch.Tensor) or tuple(got.shape) != tuple(ref.shape):
                continue
            g1 = B.grads((got * C).sum().real, tensors, True)
            S = sum((gi * di).sum().real for gi, di in zip(g1, Ds) if gi is not None and gi.requires_grad)
            g2 = B.grads(S, tensors, False)
        except Exception as e:
            B.guard_exc(obs, gmech, e, **data)
            continue
        e_, nz = B.compare_grads(obs, g1, r1, names, tensors, rolefn, gmech, "first", data)
        grad_nz = grad_nz or nz
        B.compare_grads(obs, g2, r2, names, tensors, rolefn, gmech, "second", data)
        obs.count("cplx_grad_compared")
    obs.note(n_ops=len(ops), value_relerr=worst, fcn_calls=ncalls[0], cls=cls)
    obs.nontrivial = any_nz and grad_nz
    return obs.result()
