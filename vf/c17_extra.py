"""Extra C17 scenarios (group "argdep"): arguments of the function that are NOT independent leaves - the same tensor given as two arguments,
an argument that depends on another through autograd history (either order), an argument that is a view of another, and a module whose held
parameter is the same tensor as an argument.  The Jacobian/Hessian "with respect to the selected argument" is the partial one, which is what
torch.autograd.functional.jacobian/hessian returns for the same tuple of inputs (the statement's reference); the products must also be
differentiable w.r.t. the underlying leaves (total derivative of the partial Jacobian's product), compared with autograd of the dense
reference, and must not change when the operator's parameters are substituted by equal-valued clones (solve's backward does that).

Found by widening C02 to inputs that depend on one another: the Jacobian operator held by solve gave the total derivative on its cached
path and the partial one after the substitution in solve's backward (DESIGN 5b)."""
import random

import torch

from vf.common import Obs, sub_seed, HarnessBug

DT = torch.float64
VARIANTS = ["dup", "chain_fwd", "chain_rev", "view", "dup3", "obj_same"]


def cases(seed, tier):
    out = []
    n = 120 if tier == "quick" else 1400
    for i in range(n):
        rng = random.Random(sub_seed(seed, "c17x", i))
        out.append({"group": "argdep", "seed": sub_seed(seed, "c17xs", i), "variant": VARIANTS[i % len(VARIANTS)],
                    "hess": (i // len(VARIANTS)) % 3 == 2, "kind": ["pure", "nn", "editable"][(i // 18) % 3] if VARIANTS[i % len(VARIANTS)] != "obj_same" else "editable",
                    "shape": rng.choice([(3,), (2, 2), (), (1, 3)]), "idxmode": rng.choice(["int", "none", "list"]),
                    "prod": rng.choice(["mv", "rmv", "mm", "rmm", "fullmatrix"]), "m": rng.choice([1, 3, 4])})
    return out


def _body(W1, W2, cv, scalar):
    def f(*args):
        zs = [a.reshape(-1) for a in args]
        acc = cv * 1.0
        for j, z in enumerate(zs):
            acc = acc + torch.tanh(W1[j] @ z) * (1.0 + 0.5 * j) + (W2[j] @ z) ** 2
        # cross terms so that mixed second derivatives exist
        for j in range(len(zs) - 1):
            acc = acc * (1.0 + 0.2 * torch.sin(zs[j].sum() * zs[j + 1].sum()))
        return acc.sum() if scalar else acc
    return f


def run_case(desc):
    import xitorch
    from xitorch.grad import jac, hess
    obs = Obs(desc)
    rng = random.Random(desc["seed"])
    tg = torch.Generator().manual_seed(desc["seed"])
    variant, is_hess, kind, shape, m = desc["variant"], desc["hess"], desc["kind"], tuple(desc["shape"]), desc["m"]
    tag = "hess" if is_hess else "jac"

    def rn(*s, scale=1.0):
        return (torch.randn(*s, dtype=DT, generator=tg) if s else torch.randn((), dtype=DT, generator=tg)) * scale
    nel = 1
    for s in shape:
        nel *= s
    x = rn(*shape).requires_grad_()
    y = rn(*shape).requires_grad_()          # an independent second leaf (used by some variants)

    def build(xx, yy):
        """the tuple of arguments as a function of the leaves"""
        if variant == "dup":
            return (xx, xx)
        if variant == "dup3":
            return (xx, yy, xx)
        if variant == "chain_fwd":
            return (xx, 2.0 * xx * xx + yy)
        if variant == "chain_rev":
            return (torch.sin(xx) + 0.5 * yy, xx)
        if variant == "view":
            return (xx, xx.reshape(-1).reshape(xx.shape))
        if variant == "obj_same":
            return (xx, yy)
        raise HarnessBug(variant)
    args = build(x, y)
    nargs = len(args)
    W1 = [rn(m, nel, scale=0.6) for _ in range(nargs)]
    W2 = [rn(m, nel, scale=0.4) for _ in range(nargs)]
    cv = rn(m)
    wleaf = rn(m).requires_grad_()           # a parameter of the function (explicit / held by the object)
    f0 = _body(W1, W2, cv, is_hess)

    def plain(*a_and_w):
        *a, w = a_and_w
        r = f0(*a)
        return r * (1.0 + (w * w).sum()) if is_hess else r * (1.0 + w * w)

    if kind == "pure":
        fcn = plain
        make_params = lambda xx, yy, ww: tuple(build(xx, yy)) + (ww,)       # noqa: E731
        ref_f = plain
    else:
        held_extra = x if variant == "obj_same" else None      # the object also holds the tensor that is given as argument 0
        if kind == "nn":
            class Mod(torch.nn.Module):
                def __init__(self, w):
                    super().__init__()
                    self.w = torch.nn.Parameter(w.detach().clone())

                def forward(self, *a):
                    return plain(*a, self.w)
            obj = Mod(wleaf)
            wleaf = obj.w
        else:
            class Mod(xitorch.EditableModule):
                def __init__(self, w, extra):
                    self.w, self.extra = w, extra

                def forward(self, *a):
                    r = plain(*a, self.w)
                    if self.extra is not None:
                        r = r * (1.0 + 0.3 * torch.cos(self.extra.sum()))
                    return r

                def getparamnames(self, methodname, prefix=""):
                    return [prefix + "w"] + ([prefix + "extra"] if self.extra is not None else [])
            obj = Mod(wleaf, held_extra)
        fcn = obj.forward
        make_params = lambda xx, yy, ww: tuple(build(xx, yy))                # noqa: E731

        def ref_f(*a_and_hidden):
            # plain-torch twin with the hidden tensors as trailing explicit arguments: (args..., w[, extra])
            a = a_and_hidden[:nargs]
            w = a_and_hidden[nargs]
            r = plain(*a, w)
            if variant == "obj_same" and kind == "editable":
                r = r * (1.0 + 0.3 * torch.cos(a_and_hidden[nargs + 1].sum()))
            return r

    params = make_params(x, y, wleaf)
    diff = [j for j, p in enumerate(params) if isinstance(p, torch.Tensor) and p.requires_grad]
    mode = desc["idxmode"]
    if mode == "int":
        sel = [rng.choice(list(range(nargs)))]
        idxs = sel[0]
    elif mode == "none":
        sel, idxs = diff, None
    else:
        sel = sorted(rng.sample(list(range(nargs)), rng.randint(1, nargs)))
        idxs = list(sel)
    mech = "%s:%s:%s" % (tag, variant, kind)
    try:
        res = (hess if is_hess else jac)(fcn, params, idxs=idxs)
    except Exception as e:
        obs.exc_violation("argdep:construct:" + mech, e)
        obs.nontrivial = True
        return obs.result()
    ops = [res] if mode == "int" else list(res)
    if len(ops) != len(sel):
        obs.violation("argdep:count:" + mech, "%d operators returned for %d selected arguments" % (len(ops), len(sel)))
        return obs.result()

    def ref_inputs(xx, yy, ww):
        a = tuple(build(xx, yy))
        if kind == "pure":
            return a + (ww,)
        if variant == "obj_same" and kind == "editable":
            return a + (ww, xx)
        return a + (ww,)

    def dense(j, xx, yy, ww, create_graph):
        inp = ref_inputs(xx, yy, ww)
        if is_hess:
            H = torch.autograd.functional.hessian(lambda *t: ref_f(*t).reshape(()), inp, create_graph=create_graph)[j][j]
            return H.reshape(inp[j].numel(), inp[j].numel())
        J = torch.autograd.functional.jacobian(ref_f, inp, create_graph=create_graph)[j]
        return J.reshape(-1, inp[j].numel())

    any_nonzero = False
    dsel = rng.randrange(len(ops))
    for k, (op, j) in enumerate(zip(ops, sel)):
        Jd = dense(j, x, y, wleaf, False).detach()
        nout, nin = Jd.shape
        obs.check(tuple(op.shape) == (nout, nin), "argdep:shape:" + mech, "operator shape %s, expected %s" % (tuple(op.shape), (nout, nin)))
        if tuple(op.shape) != (nout, nin):
            continue
        v, u = rn(nin), rn(nout)
        V, U = rn(nin, 2), rn(nout, 2)
        prods = {"mv": (lambda o: o.mv(v), Jd @ v), "rmv": (lambda o: o.rmv(u), Jd.T @ u), "mm": (lambda o: o.mm(V), Jd @ V),
                 "rmm": (lambda o: o.rmm(U), Jd.T @ U), "fullmatrix": (lambda o: o.fullmatrix(), Jd)}
        for pn, (call, ref) in prods.items():
            try:
                got = call(op)
            except Exception as e:
                obs.exc_violation("argdep:prod:%s:%s" % (pn, mech), e)
                continue
            err = float((got.detach() - ref).abs().max())
            sc = 1.0 + float(ref.abs().max())
            obs.check(err <= 1e-10 * sc, "argdep:prod:%s:%s" % (pn, mech),
                      "%s of the operator w.r.t. argument %d of %d (arguments: %s) differs from torch.autograd.functional's partial %s by %.3e (|ref| %.2e)"
                      % (pn, j, nargs, variant, "Hessian" if is_hess else "Jacobian", err, sc - 1))
            any_nonzero = any_nonzero or sc - 1 > 1e-8
            obs.count("argdep_products_compared")
        # ---- the same products with every operator parameter substituted by an equal-valued clone (forces the re-evaluation path)
        try:
            ps = list(op.getlinopparams())
            with op.uselinopparams(*[p.detach().clone().requires_grad_(p.requires_grad) for p in ps]):
                got = op.fullmatrix()
            err = float((got.detach() - Jd).abs().max())
            obs.check(err <= 1e-10 * (1.0 + float(Jd.abs().max())), "argdep:subst:" + mech,
                      "fullmatrix after substituting equal-valued clones of the operator's parameters differs from the partial derivative by %.3e" % err)
            # the products evaluated while gradient recording is switched off (with and without a substitution)
            with torch.no_grad():
                g0 = op.mv(v)
                with op.uselinopparams(*[p.detach().clone().requires_grad_(p.requires_grad) for p in ps]):
                    g1, g2, g3 = op.mv(v), op.mm(V), op.fullmatrix()
            for nm_, gq, rq in (("mv", g0, Jd @ v), ("subst_mv", g1, Jd @ v), ("subst_mm", g2, Jd @ V), ("subst_fullmatrix", g3, Jd)):
                e_ = float((gq.detach() - rq).abs().max())
                obs.check(e_ <= 1e-10 * (1.0 + float(rq.abs().max())), "argdep:nograd:%s:%s" % (nm_, mech),
                          "%s under torch.no_grad() differs from the dense reference by %.3e (|ref| %.2e)" % (nm_, e_, float(rq.abs().max())))
            obs.count("argdep_nograd_compared")
            got = op.fullmatrix()
            err = float((got.detach() - Jd).abs().max())
            obs.check(err <= 1e-10 * (1.0 + float(Jd.abs().max())), "argdep:restored:" + mech,
                      "fullmatrix after the substitution ended differs from the partial derivative by %.3e" % err)
            obs.count("argdep_subst_compared")
        except Exception as e:
            obs.exc_violation("argdep:subst:" + mech, e)
        if k != dsel:
            continue
        # ---- derivatives of one product w.r.t. the leaves (first and second order) against autograd of the dense partial matrix
        pn = desc["prod"]
        C = {"mv": rn(nout), "rmv": rn(nin), "mm": rn(nout, 2), "rmm": rn(nin, 2), "fullmatrix": rn(nout, nin)}[pn]
        x2, y2, w2 = x.detach().clone().requires_grad_(), y.detach().clone().requires_grad_(), wleaf.detach().clone().requires_grad_()
        Jg = dense(j, x2, y2, w2, True)
        refp = {"mv": lambda: Jg @ v, "rmv": lambda: Jg.T @ u, "mm": lambda: Jg @ V, "rmm": lambda: Jg.T @ U, "fullmatrix": lambda: Jg}[pn]()
        leaves, leaves2 = [x, y, wleaf], [x2, y2, w2]
        D = [rn(*t.shape) for t in leaves]
        r1 = torch.autograd.grad((refp * C).sum(), leaves2, create_graph=True, allow_unused=True)
        Sr = sum((g * d).sum() for g, d in zip(r1, D) if g is not None and g.requires_grad)
        r2 = torch.autograd.grad(Sr, leaves2, allow_unused=True) if isinstance(Sr, torch.Tensor) and Sr.requires_grad else [None] * 3
        try:
            got = prods[pn][0](op)
            g1 = torch.autograd.grad((got * C).sum(), leaves, create_graph=True, allow_unused=True)
            S = sum((g * d).sum() for g, d in zip(g1, D) if g is not None and g.requires_grad)
            g2 = torch.autograd.grad(S, leaves, allow_unused=True) if isinstance(S, torch.Tensor) and S.requires_grad else [None] * 3
        except Exception as e:
            obs.exc_violation("argdep:grad:%s:%s" % (pn, mech), e)
            continue
        for order, gs, rs in (("first", g1, r1), ("second", g2, r2)):
            for nm, g, r, t in zip(("x", "y", "w"), gs, rs, leaves):
                g = torch.zeros_like(t) if g is None else g
                r = torch.zeros_like(t) if r is None else r
                err = float((g.detach() - r.detach()).abs().max())
                sc = 1.0 + float(r.detach().abs().max())
                obs.check(err <= 1e-9 * sc, "argdep:grad:%s:%s:%s:%s" % (order, nm, pn, mech),
                          "%s-order derivative of %s w.r.t. leaf %s differs from autograd of the dense partial matrix by %.3e (|ref| %.2e)" % (order, pn, nm, err, sc - 1))
            obs.count("argdep_grad_compared_" + order)
    obs.count("argdep_variant_" + variant)
    obs.nontrivial = any_nonzero
    return obs.result()
