"""Driver: ./check <ID> <tier>.  Generates the case list, shards it over fresh worker interpreters that import
xitorch from /repo's current working tree, collects what the monitors observed, decides a three-valued verdict,
writes evidence/<ID>.json and replay files, applies the committed known-findings list (read-only)."""
import argparse
import collections
import concurrent.futures
import fnmatch
import importlib
import json
import os
import shutil
import subprocess
import sys
import tempfile
import time

from vf.common import case_hash, REPO

THOROUGH_ROUNDS = 3   # default number of derived seeds drawn by the thorough tier (VERIF_ROUNDS overrides)
HOME = os.environ.get("VERIF_HOME", os.path.dirname(os.path.dirname(os.path.abspath(__file__))))
PY = os.environ.get("VERIF_PYTHON", "/venv/bin/python")


def load_known(pid):
    path = os.path.join(HOME, "known_findings.json")
    if not os.path.exists(path):
        return []
    with open(path) as f:
        data = json.load(f)
    return [e for e in data.get("findings", []) if e.get("property") == pid and e.get("status") == "open"]


def match_known(known, mech):
    for e in known:
        for pat in e.get("mech", []):
            if fnmatch.fnmatchcase(mech, pat):
                return e
    return None


def run_worker(pid, shard_path, out_path, timeout, per_case_timeout):
    env = dict(os.environ)
    env["PYTHONPATH"] = "%s:%s" % (REPO, HOME)
    env.setdefault("OMP_NUM_THREADS", "1")
    cmd = [PY, "-B", "-m", "vf.worker", pid, shard_path, out_path, str(per_case_timeout)]
    t0 = time.time()
    try:
        p = subprocess.run(cmd, cwd=HOME, env=env, timeout=timeout, stdout=subprocess.PIPE,
                           stderr=subprocess.PIPE)
        return {"rc": p.returncode, "stderr": p.stderr.decode(errors="replace")[-3000:], "wall": time.time() - t0}
    except subprocess.TimeoutExpired as e:
        return {"rc": "timeout", "stderr": (e.stderr or b"").decode(errors="replace")[-3000:],
                "wall": time.time() - t0}


def main(argv=None):
    ap = argparse.ArgumentParser()
    ap.add_argument("pid")
    ap.add_argument("tier", nargs="?", default=os.environ.get("VERIF_TIER", "quick"))
    ap.add_argument("--replay")
    ap.add_argument("--shards", type=int, default=0)
    ap.add_argument("--jobs", type=int, default=int(os.environ.get("VERIF_JOBS", "12")))
    ap.add_argument("--max-cases", type=int, default=0)
    ap.add_argument("--filter", default="", help="only cases whose JSON contains this substring")
    ap.add_argument("--no-evidence", action="store_true")
    ap.add_argument("--verbose", "-v", action="store_true")
    a = ap.parse_args(argv)
    pid = a.pid.upper()
    tier = a.tier
    if tier not in ("quick", "thorough"):
        print("unknown tier", tier)
        return 2
    seed = int(os.environ.get("VERIF_SEED", "0") or 0)
    rounds = max(1, int(os.environ.get("VERIF_ROUNDS", "") or (1 if tier == "quick" else THOROUGH_ROUNDS)))
    t_start = time.time()
    mod = importlib.import_module("vf.props.%s" % pid.lower())

    if a.replay:
        with open(a.replay) as f:
            rep = json.load(f)
        cases = [rep["case"]]
    else:
        # rounds: the thorough tier draws the seeded part of the workload for several derived seeds (seed, seed+1000, ...);
        # descriptors that do not depend on the seed (exhaustive / directed groups) are generated once
        cases, seen = [], set()
        for k in range(rounds):
            for c in mod.cases(seed + 1000 * k, tier):
                h = case_hash({kk: vv for kk, vv in c.items() if kk != "cid"})
                if h in seen:
                    continue
                seen.add(h)
                cases.append(c)
        del seen
        if a.filter:
            cases = [c for c in cases if a.filter in json.dumps(c, sort_keys=True)]
        if a.max_cases:
            cases = cases[:a.max_cases]
    for i, c in enumerate(cases):
        c["cid"] = i
    if not cases:
        print("INCONCLUSIVE property=%s no cases generated" % pid)
        return 2

    budget = getattr(mod, "BUDGET", {}).get(tier, {})
    worker_timeout = budget.get("worker_timeout", 900 if tier == "quick" else 3600) * rounds
    per_case_timeout = budget.get("case_timeout", 120 if tier == "quick" else 300)
    nshards = a.shards or min(len(cases), a.jobs * getattr(mod, "SHARDS_PER_JOB", 1))
    workdir = tempfile.mkdtemp(prefix="vf-%s-" % pid, dir=_workroot())
    try:
        shards = [cases[i::nshards] for i in range(nshards)]
        jobs = []
        with concurrent.futures.ThreadPoolExecutor(max_workers=a.jobs) as ex:
            for i, sh in enumerate(shards):
                sp = os.path.join(workdir, "shard%d.json" % i)
                op = os.path.join(workdir, "out%d.jsonl" % i)
                with open(sp, "w") as f:
                    json.dump(sh, f)
                jobs.append((i, sh, op, ex.submit(run_worker, pid, sp, op, worker_timeout, per_case_timeout)))
            results = {}
            worker_problems = []
            xitorch_files = set()
            for i, sh, op, fut in jobs:
                st = fut.result()
                done = False
                if os.path.exists(op):
                    with open(op) as f:
                        for line in f:
                            try:
                                r = json.loads(line)
                            except Exception:
                                continue
                            if r.get("hello"):
                                xitorch_files.add(r.get("xitorch_file"))
                            elif r.get("done"):
                                done = True
                            else:
                                results[r["cid"]] = r
                if not done:
                    missing = [c["cid"] for c in sh if c["cid"] not in results]
                    worker_problems.append({"shard": i, "rc": st["rc"], "missing_cases": missing[:20],
                                            "n_missing": len(missing), "stderr": st["stderr"][-1500:]})
    finally:
        shutil.rmtree(workdir, ignore_errors=True)

    a.rounds = rounds
    return decide(pid, tier, seed, mod, cases, results, worker_problems, xitorch_files, t_start, a)


def _workroot():
    d = os.path.join(HOME, ".work")
    os.makedirs(d, exist_ok=True)
    return d


def decide(pid, tier, seed, mod, cases, results, worker_problems, xitorch_files, t_start, a):
    known = load_known(pid)
    counters = collections.Counter()
    n_eval = 0
    nontrivial_hashes = set()
    violations = []       # (case, viol)
    known_seen = collections.OrderedDict()
    errors, timeouts, skips = [], [], collections.Counter()
    samples = []
    by_group = collections.Counter()
    for c in cases:
        r = results.get(c["cid"])
        if r is None:
            continue
        n_eval += 1
        for k, v in r.get("counters", {}).items():
            counters[k] += v
        if r["verdict"] == "error":
            errors.append((c, r))
            continue
        if r["verdict"] == "timeout":
            timeouts.append(c)
            continue
        if r["verdict"] == "skip":
            skips[r.get("skipped") or "?"] += 1
            continue
        cd = {k: v for k, v in c.items() if k != "cid"}
        if r.get("nontrivial"):
            nontrivial_hashes.add(case_hash(cd))
            by_group[str(c.get("group", c.get("kind", "-")))] += 1
            if len(samples) < 6 and (len(samples) < 3 or by_group[str(c.get("group", c.get("kind", "-")))] == 1):
                samples.append({"case": cd, "observed": r.get("obs", {})})
        for v in r.get("viol", []):
            e = match_known(known, v["mech"])
            if e is not None:
                known_seen.setdefault(e["id"], {"entry": e, "n": 0, "example": None})
                known_seen[e["id"]]["n"] += 1
                if known_seen[e["id"]]["example"] is None:
                    known_seen[e["id"]]["example"] = {"case": cd, "viol": v}
            else:
                violations.append((cd, v, r.get("obs", {})))

    # ---- replay files for new violations (one per mechanism, first few cases each)
    viol_by_mech = collections.OrderedDict()
    for cd, v, ob in violations:
        viol_by_mech.setdefault(v["mech"], []).append((cd, v, ob))
    replay_paths = {}
    if violations:
        rdir = os.path.join(HOME, "replays", pid)
        os.makedirs(rdir, exist_ok=True)
        for mech, lst in viol_by_mech.items():
            cd, v, ob = lst[0]
            path = os.path.join(rdir, "%s.json" % case_hash(cd))
            with open(path, "w") as f:
                json.dump({"property": pid, "tier": tier, "seed": seed, "case": cd, "mechanism": mech,
                           "message": v["msg"], "data": v.get("data"), "observed": ob,
                           "n_cases_with_this_mechanism": len(lst)}, f, indent=1, default=str)
            replay_paths[mech] = os.path.relpath(path, HOME)

    min_nt = getattr(mod, "MIN_NONTRIVIAL", {}).get(tier, 2) if not a.replay else 0
    if a.max_cases or a.filter:
        min_nt = 0
    reach_required = getattr(mod, "REQUIRED_COUNTERS", {}).get(tier, {}) if not (a.replay or a.max_cases or a.filter) else {}
    inconclusive = []
    if worker_problems:
        inconclusive.append("%d worker(s) did not finish (%s)" % (
            len(worker_problems), ", ".join("shard %s rc=%s missing=%d" % (w["shard"], w["rc"], w["n_missing"])
                                            for w in worker_problems[:5])))
    if errors:
        inconclusive.append("%d case(s) failed inside the monitor itself: %s" % (
            len(errors), "; ".join(sorted({e[1].get("error", "?")[:160] for e in errors})[:4])))
    if timeouts:
        inconclusive.append("%d case(s) hit the per-case watchdog" % len(timeouts))
    if len(nontrivial_hashes) < min_nt:
        inconclusive.append("only %d distinct non-trivial cases (minimum %d)" % (len(nontrivial_hashes), min_nt))
    for name, need in reach_required.items():
        if counters.get(name, 0) < need:
            inconclusive.append("reach counter %s=%d < %d" % (name, counters.get(name, 0), need))
    bad_import = [x for x in xitorch_files if not (x or "").startswith(REPO + os.sep)]
    if bad_import:
        inconclusive.append("xitorch imported from %s, not from %s" % (bad_import, REPO))

    wall = time.time() - t_start
    verdict = "violated" if violations else ("inconclusive" if inconclusive else "held")

    # ---- evidence
    if not a.replay and not a.no_evidence and not a.max_cases and not a.filter:
        ev = {
            "property_id": pid, "tier": tier, "seed": seed, "seeds_drawn": [seed + 1000 * k for k in range(getattr(a, "rounds", 1))],
            "level": getattr(mod, "LEVEL", "exploration"),
            "coverage": {
                "evaluations": n_eval,
                "distinct_nontrivial": len(nontrivial_hashes),
                "rule": getattr(mod, "RULE", ""),
                "samples": samples if samples else [{"case": {k: v for k, v in cases[0].items() if k != "cid"}}],
                "nontrivial_by_group": dict(by_group),
                "reach_counters": dict(sorted(counters.items())),
                "skipped_by_reason": dict(skips),
                "known_findings_seen": {k: {"n_cases": v["n"], "what": v["entry"]["what"]}
                                        for k, v in known_seen.items()},
                "violations_by_mechanism": {m: len(l) for m, l in viol_by_mech.items()},
                "verdict": verdict,
                "inconclusive_reasons": inconclusive,
                "xitorch_imported_from": sorted(x for x in xitorch_files if x),
                "cases_generated": len(cases),
            },
            "assumptions": list(getattr(mod, "ASSUMPTIONS", [])),
            "wall_s": round(wall, 2),
            "violations": len(violations),
        }
        if getattr(mod, "EXHAUSTIVE_NOTE", None):
            ev["coverage"]["exhaustive_subspace"] = mod.EXHAUSTIVE_NOTE
        os.makedirs(os.path.join(HOME, "evidence"), exist_ok=True)
        tmp = os.path.join(HOME, "evidence", ".%s.json.tmp" % pid)
        with open(tmp, "w") as f:
            json.dump(ev, f, indent=1, default=str)
        os.replace(tmp, os.path.join(HOME, "evidence", "%s.json" % pid))

    # ---- report
    print("property=%s tier=%s seed=%d rounds=%d cases=%d evaluated=%d nontrivial=%d wall=%.1fs" % (
        pid, tier, seed, getattr(a, "rounds", 1), len(cases), n_eval, len(nontrivial_hashes), wall))
    interesting = {k: v for k, v in sorted(counters.items())}
    print("observed: " + json.dumps(interesting))
    if skips:
        print("skipped: " + json.dumps(dict(skips)))
    for k, v in known_seen.items():
        print("KNOWN-FINDING: property=%s %s [%s; %d case(s) this run]" % (pid, v["entry"]["what"], k, v["n"]))
    for e in known:
        if e["id"] not in known_seen and not (a.replay or a.max_cases or a.filter):
            print("note: listed finding %s was not re-observed in this run" % e["id"])
    if a.verbose or a.replay:
        for c in cases:
            r = results.get(c["cid"])
            if r is not None:
                print(json.dumps({"case": c, "result": r}, indent=1, default=str)[:6000])
    for e in errors[:3]:
        print("MONITOR-ERROR case=%s\n%s" % (json.dumps(e[0]), e[1].get("tb", "")))
    for w in worker_problems[:3]:
        print("WORKER-PROBLEM %s" % json.dumps(w)[:2500])
    if violations:
        shown = 0
        for mech, lst in viol_by_mech.items():
            print("VIOLATION property=%s replay=%s" % (pid, replay_paths[mech]))
            print("   mechanism=%s cases=%d first: %s" % (mech, len(lst), lst[0][1]["msg"][:400]))
            shown += 1
            if shown >= 25:
                print("   ... %d more mechanisms" % (len(viol_by_mech) - shown))
                break
        return 1
    if inconclusive:
        print("INCONCLUSIVE property=%s %s" % (pid, " | ".join(inconclusive)))
        return 2
    print("HELD property=%s on %d executions (%d distinct non-trivial)" % (pid, n_eval, len(nontrivial_hashes)))
    return 0


if __name__ == "__main__":
    sys.exit(main())
