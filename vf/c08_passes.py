"""Two more C08 workload dimensions (added after seeded changes C08-r6-a / C08-r6-b were missed):

* ``multipass``   - a HISTORY on one autograd graph: ONE solve_ivp call, then several backward passes of different modes through it
                    (plain autograd.grad, create_graph=True + a second differentiation, .backward() into .grad, a pass for a subset
                    of the leaves; same or different cotangents), in seeded orders.  Every pass is compared (first and second order,
                    leaf by leaf incl. every requested time) with the closed form from the same leaves (adaptive configurations)
                    and with the SAME pass run alone on a fresh graph of an identical solve_ivp call (every configuration): what an
                    earlier pass did to the graph must not change what a later pass returns.  Problems come from the generator of
                    vf/props/c08.py (families x parameter modes x tuple states x leaf subsets x grids).
* ``passthrough`` - right-hand sides that RETURN A TENSOR THEY DO NOT OWN: the velocity parameter itself (``return v``,
                    ``return self.v`` of an nn.Module / EditableModule, a list-held tensor), the state itself (``return y``), the time
                    itself (0-dim state), through identity-returning calls (``.contiguous()``, ``.to(dtype)``) or as a view
                    (``view`` / ``[...]`` / ``expand``); tensor and tuple states, plain and graph-recording backward, second order, both
                    grid directions, adaptive and fixed-step methods.  Closed forms: y0 + v (t - t0); y0 exp(t - t0); y0 + (t^2 - t0^2)/2.
"""
import math
import random

import torch

from vf.common import Obs, sub_seed, WarnLog, HarnessBug

DT = torch.float64

# ---------------------------------------------------------------------------------------------------------------- multipass
# (mode, cotangent id) per pass.  modes: plain = autograd.grad without create_graph; cg = autograd.grad(create_graph=True) followed by a
# differentiation of a random contraction of the returned gradients; bwdcall = torch.autograd.backward(..., inputs=leaves) read from
# .grad; plain_sub = plain for a seeded non-empty subset of the leaves
SEQS = {
    "plain_cg": [("plain", 0), ("cg", 0)],
    "cg_plain": [("cg", 0), ("plain", 0)],
    "plain_cg_othercot": [("plain", 0), ("cg", 1)],
    "cg_plain_cg": [("cg", 0), ("plain", 1), ("cg", 1)],
    "two_plain": [("plain", 0), ("plain", 1)],
    "two_cg": [("cg", 0), ("cg", 1)],
    "bwdcall_cg": [("bwdcall", 0), ("cg", 0)],
    "sub_cg": [("plain_sub", 0), ("cg", 0)],
    "plain_plain_cg": [("plain", 0), ("plain", 1), ("cg", 1)],
    "cg_cg_same": [("cg", 0), ("cg", 0)],
}
SEQ_NAMES = sorted(SEQS)
MP_CONFS = ["rk45", "rk45", "rk45", "rk45_btol", "rk45_default_method", "rk23_b45", "rk4", "rk38", "rk4_b45", "euler", "rk45_b4", "rk45"]
# a pass on a shared graph and the same pass on a fresh graph are the same floating-point computation (observed difference: 0.0)
TOL_FRESH = 1e-9


def multipass_cases(seed, tier, common):
    """`common` = the descriptor generator of vf/props/c08.py (_common)"""
    out = []
    n = 72 if tier == "quick" else 240          # x 3 seeds drawn by the thorough tier
    for i in range(n):
        rng = random.Random(sub_seed(seed, "c08mp", i))
        d = common(rng, {"group": "multipass", "seed": sub_seed(seed, "c08mps", i)})
        d["seq"] = SEQ_NAMES[i % len(SEQ_NAMES)]
        d["conf"] = MP_CONFS[(i // len(SEQ_NAMES) + i) % len(MP_CONFS)]
        d["nt"] = rng.choice([2, 3, 4])
        d["rg_ts"] = rng.random() < 0.8 or not d["rg_y0"]
        d["loss"] = rng.choice(["lin", "sq", "sq"])
        d["cot1"] = rng.choice(["dense", "one"])
        d["order"], d["cg"] = 2, 1
        if "23" in d["conf"]:
            d["nt"] = rng.choice([2, 3])
        if d["conf"] in ("rk4", "rk38", "rk4_b45", "euler", "rk45_b4"):
            d["nt"] = rng.choice([3, 4, 6])
        out.append(d)
    return out


def _loss(ylist, cots, kind):
    if kind == "lin":
        return sum((a * c).sum() for a, c in zip(ylist, cots))
    return sum((c * a * a).sum() for a, c in zip(ylist, cots))


def _one_pass(L, leaves, mode, Rs, sub):
    """returns (g, h): lists aligned with `leaves` (None = not returned / not requested)"""
    n = len(leaves)
    if mode == "plain":
        return list(torch.autograd.grad(L, leaves, retain_graph=True, allow_unused=True)), None
    if mode == "plain_sub":
        gs = torch.autograd.grad(L, [leaves[i] for i in sub], retain_graph=True, allow_unused=True)
        g = [None] * n
        for i, x in zip(sub, gs):
            g[i] = x
        return g, None
    if mode == "bwdcall":
        old = [l.grad for l in leaves]
        try:
            for l in leaves:
                l.grad = None
            torch.autograd.backward(L, inputs=leaves, retain_graph=True)
            return [l.grad for l in leaves], None
        finally:
            for l, o in zip(leaves, old):
                l.grad = o
    if mode == "cg":
        g = list(torch.autograd.grad(L, leaves, create_graph=True, retain_graph=True, allow_unused=True))
        s = sum((x * R).sum() for x, R in zip(g, Rs) if x is not None and x.requires_grad)
        if isinstance(s, torch.Tensor) and s.requires_grad:
            h = list(torch.autograd.grad(s, leaves, retain_graph=True, allow_unused=True))
        else:
            h = [None] * n          # the returned gradients are constants: their derivative is zero
        return g, h
    raise HarnessBug("pass mode %s" % mode)


def run_multipass(desc):
    from vf.props import c08 as M
    from xitorch.integrate import solve_ivp
    obs = Obs(desc)
    P, rng, tgen = M.build_problem(desc)
    conf = M.CONFS[desc["conf"]]
    seq = desc["seq"]
    passes = SEQS[seq]
    method, fwd_opts, bck, cls = conf[0], dict(conf[1]), conf[2], conf[3]
    kw = dict(fwd_opts)
    if bck is not None:
        kw["bck_options"] = dict(bck)
    if method is not None:
        kw["method"] = method
    leaves = [l for _, _, l in P.leaves]
    kinds = [k for k, _, _ in P.leaves]
    nl = len(leaves)
    all_leaves = leaves + ([P.unused] if P.unused is not None else [])
    cname = desc["conf"]
    obs.note(leaf_kinds=sorted(set(kinds)), conf=cname, seq=seq)

    def forward(tag):
        P.phase[0] = "fwd"
        try:
            with WarnLog():
                yt = solve_ivp(P.fcn, P.ts, P.y0, params=P.params, **kw)
        except HarnessBug:
            raise
        except Exception as e:
            obs.exc_violation("mp_forward:%s:%s" % (tag, cname), e)
            return None
        return M._aslist(yt)

    ylist = forward("shared")
    if ylist is None:
        obs.nontrivial = True
        return obs.result()
    Yref = M._aslist(P.ref(P.ts, P.y0, P.th))
    if len(ylist) != len(Yref) or any(tuple(a.shape) != tuple(b.shape) for a, b in zip(ylist, Yref)):
        obs.check(False, "mp_shape:%s" % cname, "trajectory shapes %s, expected %s" % ([tuple(a.shape) for a in ylist], [tuple(b.shape) for b in Yref]))
        obs.nontrivial = True
        return obs.result()
    if not ylist[0].requires_grad:
        obs.check(False, "mp_no_graph:%s" % cname, "the trajectory does not require grad although %s do" % sorted(set(kinds)))
        obs.nontrivial = True
        return obs.result()
    # two cotangents
    cgen = torch.Generator().manual_seed(desc["seed"] ^ 0x5A5A5A)
    sel0 = M.cot_indices(desc, rng)
    sel1 = list(range(desc["nt"])) if desc["cot1"] == "dense" else [rng.randrange(desc["nt"])]
    cots = []
    for sel in (sel0, sel1):
        cs = []
        for Y in Yref:
            c = torch.zeros_like(Y.detach())
            for i in sel:
                c[i] = torch.randn(Y.shape[1:], dtype=DT, generator=cgen)
            cs.append(c)
        cots.append(cs)
    cmax = max(float(c.abs().max()) for cs in cots for c in cs)
    rgen = torch.Generator().manual_seed(desc["seed"] ^ 0x3C3C3C)
    Rs = [torch.randn(l.shape, dtype=DT, generator=rgen) for l in all_leaves]
    rmax = max(float(R.abs().max()) for R in Rs)
    sub = sorted(rng.sample(range(len(all_leaves)), rng.randint(1, len(all_leaves))))
    tol1, tol2 = M.tol_tight(cname)
    seen_modes = []
    worst = [0.0]
    scale_any = 0.0

    def zeros(xs, idx):
        return [torch.zeros_like(all_leaves[i]) if xs[i] is None else xs[i].detach() for i in idx]

    for j, (mode, cid) in enumerate(passes):
        ptag = "%s:p%d_%s" % (seq, j, mode)
        req = [i for i in range(nl) if mode != "plain_sub" or i in sub]          # requested leaves that enter the dynamics
        L = _loss(ylist, cots[cid], desc["loss"])
        Lr = _loss(Yref, cots[cid], desc["loss"])
        P.phase[0] = "bwd"
        try:
            with WarnLog():
                g, h = _one_pass(L, all_leaves, mode, Rs, sub)
        except HarnessBug:
            raise
        except Exception as e:
            obs.exc_violation("mp_backward:%s:%s:%s" % (ptag, cname, "ts" if desc["rg_ts"] else "nots"), e)
            obs.nontrivial = True
            return obs.result()
        finally:
            P.phase[0] = "fwd"
        bad_shape = [kinds[i] for i in req if g[i] is not None and tuple(g[i].shape) != tuple(leaves[i].shape)]
        obs.check(not bad_shape, "mp_grad_shape:%s" % ptag, "gradient shape differs from the leaf for %s" % bad_shape)
        if bad_shape:
            obs.nontrivial = True
            return obs.result()
        # the tensor that does not enter the dynamics
        if P.unused is not None and (mode != "plain_sub" or nl in sub):
            for od, xs in (("1", g), ("2", h)):
                if xs is None:
                    continue
                x = xs[nl]
                obs.check(x is None or float(x.detach().abs().max()) == 0.0, "mp_unused_nonzero:%s:%s:order%s" % (P.unused_kind, ptag, od),
                          "a tensor that does not enter the dynamics received a non-zero gradient (max %s)" % (None if x is None else float(x.detach().abs().max())))
        # ---- (a) closed form (adaptive configurations only: a coarse fixed-step grid is not compared with the exact solution)
        if cls == "tight" and req:
            gr_all = torch.autograd.grad(Lr, leaves, create_graph=mode == "cg", retain_graph=True, allow_unused=True)
            gr_all = M._zeros_if_none(gr_all, leaves)
            for i in req:
                if g[i] is None and float(gr_all[i].detach().abs().max()) > 0:
                    obs.check(False, "mp_grad1_none:%s:%s" % (kinds[i], ptag), "gradient None for a leaf of kind %s that enters the solution" % kinds[i])
            errs, sc = M._kind_errors([kinds[i] for i in req], zeros(g, req), [gr_all[i] for i in req], cmax)
            scale_any = max(scale_any, sc)
            for k, e in sorted(errs.items()):
                worst[0] = max(worst[0], e / tol1)
                obs.check(e <= tol1, "mp_grad1:%s:%s:%s" % (k, ptag, cname),
                          "pass %d (%s) of sequence %s on one graph: first-order gradient, relative error %.3e for leaf kind %s exceeds %.1e"
                          % (j, mode, seq, e, k, tol1), errors=errs, earlier_passes=list(seen_modes))
            obs.count("multipass_closed_form_compared")
            if mode == "cg":
                sr = sum((x * R).sum() for x, R in zip(gr_all, Rs) if x.requires_grad)
                if isinstance(sr, torch.Tensor) and sr.requires_grad:
                    hr = M._zeros_if_none(torch.autograd.grad(sr, leaves, retain_graph=True, allow_unused=True), leaves)
                    errs2, _ = M._kind_errors(kinds, zeros(h, range(nl)), hr, cmax * rmax)
                    for k, e in sorted(errs2.items()):
                        worst[0] = max(worst[0], e / tol2)
                        obs.check(e <= tol2, "mp_grad2:%s:%s:%s" % (k, ptag, cname),
                                  "pass %d (%s) of sequence %s on one graph: second-order gradient, relative error %.3e for leaf kind %s exceeds %.1e"
                                  % (j, mode, seq, e, k, tol2), errors=errs2, earlier_passes=list(seen_modes))
                    obs.count("multipass_second_order_closed_form")
                    if desc["rg_ts"] and any(m_ in ("plain", "bwdcall", "plain_sub") for m_ in seen_modes):
                        obs.count("multipass_cg_after_plain_ts_closed_form")
        # ---- (b) the same pass alone on a fresh graph of an identical call
        if j >= 1:
            y2 = forward("fresh")
            if y2 is None:
                obs.nontrivial = True
                return obs.result()
            L2 = _loss(y2, cots[cid], desc["loss"])
            P.phase[0] = "bwd2"
            try:
                with WarnLog():
                    gf, hf = _one_pass(L2, all_leaves, mode, Rs, sub)
            except HarnessBug:
                raise
            except Exception as e:
                obs.exc_violation("mp_backward_fresh:%s:%s" % (ptag, cname), e)
                obs.nontrivial = True
                return obs.result()
            finally:
                P.phase[0] = "fwd"
            for od, xs, fs, csc in (("1", g, gf, cmax), ("2", h, hf, cmax * rmax)):
                if xs is None:
                    continue
                idx = req if od == "1" else list(range(nl))
                errs, sc = M._kind_errors([kinds[i] for i in idx], zeros(xs, idx), zeros(fs, idx), csc)
                scale_any = max(scale_any, sc)
                for k, e in sorted(errs.items()):
                    obs.check(e <= TOL_FRESH, "mp_fresh%s:%s:%s:%s" % (od, k, ptag, cname),
                              "pass %d (%s) of sequence %s: order-%s gradient for leaf kind %s differs (relative %.3e) from the same pass run alone on a "
                              "fresh graph of the identical solve_ivp call; earlier passes on the shared graph: %s" % (j, mode, seq, od, k, e, seen_modes),
                              errors=errs)
            obs.count("multipass_fresh_compared")
            if mode == "cg" and desc["rg_ts"] and any(m_ in ("plain", "bwdcall", "plain_sub") for m_ in seen_modes):
                obs.count("multipass_cg_after_plain_ts")
            if mode in ("plain", "bwdcall") and "cg" in seen_modes:
                obs.count("multipass_plain_after_cg")
        seen_modes.append(mode)
    obs.count("multipass_seq:%s" % seq)
    obs.count("multipass_conf_%s" % cls)
    obs.count("rhs_calls_backward", P.cnt["bwd"])
    obs.count("rhs_calls_backward2", P.cnt["bwd2"])
    if P.is_tuple:
        obs.count("multipass_tuple_state")
    if "obj" in kinds:
        obs.count("multipass_objparams")
    obs.note(worst_ratio=worst[0], rhs_calls=dict(P.cnt))
    obs.nontrivial = scale_any > 0 and P.cnt["bwd"] > 0
    return obs.result()


# ---------------------------------------------------------------------------------------------------------------- passthrough
PT_SRCS = ["param", "nn_attr", "em_attr", "em_list", "state", "time", "tuple_mix", "param", "nn_attr", "state"]
PT_OPS = ["same", "same", "contiguous", "to", "view", "ellipsis", "expand"]
PT_METHODS = ["rk45", "rk4", "default", "rk23", "rk38", "euler", "rk45", "rk4"]
IDENTITY_OPS = ("same", "contiguous", "to")
# tolerances (relative, see c08._kind_errors).  Right-hand sides that are constant / linear in t are integrated exactly by every scheme:
# observed <= 3e-15 -> 1e-10 / 1e-9.  dy/dt = y: the tolerances of the adaptive configurations of c08 (rk45 at 1e-10: 3e-6 / 3e-5, rk23 at
# 1e-9: 1e-4 / 1e-3); rk4 / rk38 on a 48-fold refined grid (h <= 0.032): see TOL_FINE
TOL_EXACT = (1e-10, 1e-9)
# rk4 / rk38 with h <= 0.032: observed <= 2.0e-8 first order, <= 2.2e-7 second order (seeds 0..3, 7 quick) -> 1e-5 / 1e-4
TOL_FINE = (1e-5, 1e-4)
REFINE = 48


def passthrough_cases(seed, tier):
    out = []
    n = 200 if tier == "quick" else 600
    for i in range(n):
        rng = random.Random(sub_seed(seed, "c08pt", i))
        d = {"group": "extra", "kind": "passthrough", "seed": sub_seed(seed, "c08pts", i)}
        d["src"] = PT_SRCS[i % len(PT_SRCS)]
        d["op"] = PT_OPS[(i // len(PT_SRCS) + i) % len(PT_OPS)]
        d["method"] = PT_METHODS[(i // 2) % len(PT_METHODS)]
        if d["src"] in ("state", "tuple_mix") and d["method"] == "euler":
            d["method"] = "rk45"
        if d["src"] == "time" and d["method"] == "euler":
            d["method"] = "rk4"
        d["shape"] = "scalar0" if d["src"] == "time" else rng.choice(["vec", "vec", "batched", "scalar0"])
        if d["src"] == "tuple_mix":
            d["shape"] = "vec"
        d["decreasing"] = rng.random() < 0.5
        d["nt"] = rng.choice([2, 3, 4, 5])
        d["order"] = 2 if i % 4 == 3 else 1
        d["cg"] = 1 if d["order"] == 2 else (i // 4) % 2
        d["loss"] = rng.choice(["lin", "sq", "sq"])
        d["cot"] = rng.choice(["dense", "last", "one"])
        d["rg_ts"] = rng.random() < 0.6
        d["rg_y0"] = rng.random() < 0.7
        d["rg_v"] = rng.random() < 0.85
        if d["src"] in ("state", "time"):
            d["rg_v"] = False
            if not (d["rg_ts"] or d["rg_y0"]):
                d["rg_y0"] = True
        elif not (d["rg_ts"] or d["rg_y0"] or d["rg_v"]):
            d["rg_v"] = True
        d["struct"] = rng.choice(["list", "tuple"])
        out.append(d)
    return out


def _apply_op(op, x, like):
    if op == "same":
        return x
    if op == "contiguous":
        return x.contiguous()
    if op == "to":
        return x.to(like.dtype)
    if op == "view":
        return x.view(like.shape)
    if op == "ellipsis":
        return x[...]
    if op == "expand":
        return x.expand(like.shape)
    raise HarnessBug("op %s" % op)


def run_passthrough(desc):
    import xitorch
    from vf.props import c08 as M
    from xitorch.integrate import solve_ivp
    obs = Obs(desc)
    rng = random.Random(desc["seed"])
    tg = torch.Generator().manual_seed(desc["seed"])
    src, op, method = desc["src"], desc["op"], desc["method"]
    m = rng.choice([1, 2, 3])
    shape = {"vec": (m,), "batched": (2, m), "scalar0": ()}[desc["shape"]]
    # ---- time grid
    nt = desc["nt"]
    T = rng.uniform(0.3, 1.5)
    t0 = rng.uniform(-1.0, 1.0)
    fr = sorted([0.0, 1.0] + [rng.uniform(0.1, 0.9) for _ in range(nt - 2)])
    for i in range(1, nt):          # strictly monotone with spacing >= 0.03 T
        fr[i] = max(fr[i], fr[i - 1] + 0.03)
    sgn = -1.0 if desc["decreasing"] else 1.0
    tl = [t0 + sgn * T * f for f in fr]
    needs_fine = src in ("state", "tuple_mix") and method in ("rk4", "rk38")
    stride = 1
    if needs_fine:
        stride = REFINE
        fine = []
        for i in range(nt - 1):
            fine += [tl[i] + (tl[i + 1] - tl[i]) * j / REFINE for j in range(REFINE)]
        fine.append(tl[-1])
        tl = fine
    ts = torch.tensor(tl, dtype=DT, requires_grad=bool(desc["rg_ts"]))
    # ---- leaves
    is_tuple = src == "tuple_mix"
    vshape = shape[-1:] if (op == "expand" and desc["shape"] == "batched") else shape
    v = torch.randn(vshape, generator=tg, dtype=DT).requires_grad_(bool(desc["rg_v"]))
    if is_tuple:
        y0a = torch.randn(shape, generator=tg, dtype=DT).requires_grad_(bool(desc["rg_y0"]))
        y0b = torch.randn(shape, generator=tg, dtype=DT).requires_grad_(bool(desc["rg_y0"]))
        y0 = [y0a, y0b] if desc["struct"] == "list" else (y0a, y0b)
    else:
        y0 = torch.randn(shape, generator=tg, dtype=DT).requires_grad_(bool(desc["rg_y0"]))
    cnt = {"fwd": 0, "bwd": 0, "identity": 0}
    phase = ["fwd"]

    def ret(x, like, t, y):
        cnt[phase[0]] += 1
        r = _apply_op(op, x, like)
        if r is x:
            cnt["identity"] += 1
        return r

    params = ()
    if src == "param":
        def fcn(t, y, vv):
            return ret(vv, y, t, y)
        params = (v,)
    elif src == "nn_attr":
        class Mod(torch.nn.Module):
            def __init__(self):
                super().__init__()
                self.v = torch.nn.Parameter(v.detach().clone(), requires_grad=v.requires_grad)

            def forward(self, t, y):
                return ret(self.v, y, t, y)
        mod = Mod()
        v = mod.v
        fcn = mod.forward if rng.random() < 0.7 else mod
    elif src in ("em_attr", "em_list"):
        class EM(xitorch.EditableModule):
            def __init__(self):
                if src == "em_attr":
                    self.v = v
                else:
                    self.held = [v]

            def forward(self, t, y):
                return ret(self.v if src == "em_attr" else self.held[0], y, t, y)

            def getparamnames(self, methodname, prefix=""):
                return [prefix + ("v" if src == "em_attr" else "held[0]")]
        em = EM()
        fcn = em.forward
    elif src == "state":
        def fcn(t, y):
            return ret(y, y, t, y)
    elif src == "time":
        def fcn(t, y):
            return ret(t, y, t, y)
    elif is_tuple:
        def fcn(t, y, vv):
            if not isinstance(y, (list, tuple)) or len(y) != 2:
                raise TypeError("tuple state not passed to the right-hand side as a sequence of 2 tensors")
            cnt[phase[0]] += 1
            r = [_apply_op(op, vv, y[0]), _apply_op(op, y[1], y[1])]
            if r[0] is vv and r[1] is y[1]:
                cnt["identity"] += 1
            return r if desc["struct"] == "list" else tuple(r)
        params = (v,)
    else:
        raise HarnessBug("src %s" % src)

    def exact():
        tt = ts.reshape(-1, *([1] * len(shape)))
        if src == "state":
            return [y0 * torch.exp(tt - ts[0])]
        if src == "time":
            return [y0 + 0.5 * (tt * tt - ts[0] * ts[0])]
        if is_tuple:
            return [y0[0] + v * (tt - ts[0]), y0[1] * torch.exp(tt - ts[0])]
        return [y0 + v * (tt - ts[0])]

    if method == "default":
        kw = {"atol": 1e-10, "rtol": 1e-10}
    elif method == "rk45":
        kw = {"method": "rk45", "atol": 1e-10, "rtol": 1e-10}
    elif method == "rk23":
        kw = {"method": "rk23", "atol": 1e-9, "rtol": 1e-9}
    else:
        kw = {"method": method}
    exact_class = src not in ("state", "tuple_mix")
    if exact_class:
        tol1, tol2 = TOL_EXACT
        mcls = "exact"
    elif needs_fine:
        tol1, tol2 = TOL_FINE
        mcls = "fine"
    else:
        tol1, tol2 = M.tol_tight("rk23" if method == "rk23" else "rk45")
        mcls = "adaptive"
    cgflag = bool(desc["cg"] or desc["order"] == 2)
    mech = "%s:%s:%s:%s:%s:%s" % (src, "identity" if op in IDENTITY_OPS else "view", method, mcls, "dec" if desc["decreasing"] else "inc",
                                  "cg" if cgflag else "nocg")
    leaves, kinds = [], []
    if desc["rg_y0"]:
        for y_ in (y0 if is_tuple else [y0]):
            leaves.append(y_)
            kinds.append("y0")
    if desc["rg_ts"]:
        leaves.append(ts)
        kinds.append("ts")
    if desc["rg_v"] and src not in ("state", "time"):
        leaves.append(v)
        kinds.append("theta" if src in ("param", "tuple_mix") else "obj")
    obs.note(leaf_kinds=sorted(set(kinds)), op=op, src=src)
    try:
        with WarnLog():
            yt = solve_ivp(fcn, ts, y0, params=params, **kw)
    except HarnessBug:
        raise
    except Exception as e:
        obs.exc_violation("pt_forward:" + mech, e)
        obs.nontrivial = True
        return obs.result()
    ylist = M._aslist(yt)
    Yref = exact()
    if len(ylist) != len(Yref) or any(tuple(a.shape) != tuple(b.shape) for a, b in zip(ylist, Yref)):
        obs.check(False, "pt_shape:" + mech, "trajectory shapes %s, expected %s" % ([tuple(a.shape) for a in ylist], [tuple(b.shape) for b in Yref]))
        obs.nontrivial = True
        return obs.result()
    verr = max(float((a.detach() - b.detach()).abs().max()) for a, b in zip(ylist, Yref))
    vsc = 1.0 + max(float(b.detach().abs().max()) for b in Yref)
    obs.check(verr <= 10 * tol1 * vsc, "pt_value:" + mech, "trajectory differs from the closed form by %.3e" % verr)
    if not ylist[0].requires_grad:
        obs.check(False, "pt_no_graph:" + mech, "the trajectory does not require grad although %s do" % sorted(set(kinds)))
        obs.nontrivial = True
        return obs.result()
    # cotangent on the requested (coarse) times
    sel = list(range(nt))
    if desc["cot"] == "last":
        sel = [nt - 1]
    elif desc["cot"] == "one":
        sel = [rng.randrange(nt)]
    cots = []
    for Y in Yref:
        c = torch.zeros_like(Y.detach())
        for i in sel:
            c[i * stride] = torch.randn(Y.shape[1:], generator=tg, dtype=DT)
        cots.append(c)
    cmax = max(float(c.abs().max()) for c in cots)
    L = _loss(ylist, cots, desc["loss"])
    Lr = _loss(Yref, cots, desc["loss"])
    phase[0] = "bwd"
    try:
        with WarnLog():
            g = torch.autograd.grad(L, leaves, create_graph=cgflag, retain_graph=True, allow_unused=True)
    except HarnessBug:
        raise
    except Exception as e:
        obs.exc_violation("pt_backward:" + mech, e)
        obs.nontrivial = True
        return obs.result()
    finally:
        phase[0] = "fwd"
    gr = M._zeros_if_none(torch.autograd.grad(Lr, leaves, create_graph=desc["order"] == 2, retain_graph=True, allow_unused=True), leaves)
    bad_shape = [k for k, x, l in zip(kinds, g, leaves) if x is not None and tuple(x.shape) != tuple(l.shape)]
    obs.check(not bad_shape, "pt_grad_shape:" + mech, "gradient shape differs from the leaf for %s" % bad_shape)
    if bad_shape:
        obs.nontrivial = True
        return obs.result()
    for k, x, r in zip(kinds, g, gr):
        if x is None and float(r.detach().abs().max()) > 0:
            obs.check(False, "pt_grad1_none:%s:%s" % (k, mech), "gradient None for a leaf of kind %s that enters the solution" % k)
    gz = M._zeros_if_none(list(g), leaves)
    errs, sc = M._kind_errors(kinds, gz, gr, cmax)
    for k, e in sorted(errs.items()):
        obs.check(e <= tol1, "pt_grad1:%s:%s" % (k, mech),
                  "right-hand side returning %s (%s): first-order gradient (%s backward), relative error %.3e for leaf kind %s exceeds %.1e"
                  % ({"state": "the state", "time": "the time", "tuple_mix": "a parameter and a state component"}.get(src, "a parameter"),
                     op, "graph-recording" if cgflag else "plain", e, k, tol1), errors=errs)
    obs.note(errs1=errs, val_err=verr)
    worst = max(list(errs.values()) + [0.0]) / tol1
    obs.count("passthrough_compared_%s" % ("cg" if cgflag else "nocg"))
    obs.count("passthrough_src_%s" % src)
    obs.count("passthrough_op_%s" % op)
    obs.count("passthrough_%s" % mcls)
    if cnt["identity"] and not cgflag and any(k in ("theta", "obj") for k in kinds):
        obs.count("passthrough_param_returned_untouched_plain_backward")
    if cnt["identity"] and src == "state":
        obs.count("passthrough_state_returned_untouched")
    if op not in IDENTITY_OPS:
        obs.count("passthrough_view_returned")
    if desc["decreasing"]:
        obs.count("passthrough_decreasing")
    if desc["rg_ts"]:
        obs.count("passthrough_ts_grad")
    if desc["order"] == 2:
        rgen = torch.Generator().manual_seed(desc["seed"] ^ 0x3C3C3C)
        Rs = [torch.randn(l.shape, dtype=DT, generator=rgen) for l in leaves]
        rmax = max(float(R.abs().max()) for R in Rs)
        s = sum((x * R).sum() for x, R in zip(g, Rs) if x is not None and x.requires_grad)
        sr = sum((x * R).sum() for x, R in zip(gr, Rs) if x.requires_grad)
        if isinstance(sr, torch.Tensor) and sr.requires_grad:
            if isinstance(s, torch.Tensor) and s.requires_grad:
                phase[0] = "bwd"
                try:
                    with WarnLog():
                        h = torch.autograd.grad(s, leaves, retain_graph=True, allow_unused=True)
                except HarnessBug:
                    raise
                except Exception as e:
                    obs.exc_violation("pt_backward2:" + mech, e)
                    obs.nontrivial = True
                    return obs.result()
                finally:
                    phase[0] = "fwd"
            else:
                h = [None] * len(leaves)
            hr = M._zeros_if_none(torch.autograd.grad(sr, leaves, retain_graph=True, allow_unused=True), leaves)
            hz = M._zeros_if_none(list(h), leaves)
            errs2, _ = M._kind_errors(kinds, hz, hr, cmax * rmax)
            for k, e in sorted(errs2.items()):
                obs.check(e <= tol2, "pt_grad2:%s:%s" % (k, mech),
                          "right-hand side returning a tensor it does not own (%s, %s): second-order gradient, relative error %.3e for leaf kind %s exceeds %.1e"
                          % (src, op, e, k, tol2), errors=errs2)
            obs.note(errs2=errs2)
            worst = max(worst, max(list(errs2.values()) + [0.0]) / tol2)
            obs.count("passthrough_second_order_compared")
    obs.count("rhs_calls_backward", cnt["bwd"])
    obs.note(worst_ratio=worst, rhs_calls=dict(cnt))
    if worst > 1e-2:
        obs.count("error_above_1pct_of_tolerance:passthrough:%s" % mcls)
    obs.nontrivial = sc > 0 and cnt["bwd"] > 0
    return obs.result()
