"""Generators shared by the linear-algebra monitors: spectra, dense matrices, operator kinds built from a dense
matrix (fresh classes per call - xitorch caches capabilities per class), expression trees with their dense value."""
import itertools
import math
import random

import torch

_cls_counter = itertools.count()


def rdtype(name):
    return {"float32": torch.float32, "float64": torch.float64, "complex128": torch.complex128,
            "complex64": torch.complex64}[name]


def randn(shape, dtype, gen=None):
    return torch.randn(*shape, dtype=dtype, generator=gen) if len(shape) else torch.randn((), dtype=dtype, generator=gen)


def rand_unitary(n, batch, dtype, gen=None):
    a = torch.randn(*batch, n, n, dtype=dtype, generator=gen)
    q, r = torch.linalg.qr(a)
    return q


def spectrum(kind, n, kappa, rng, gaps=None):
    """real eigen/singular values with condition number <= kappa"""
    if n == 1:
        vals = [rng.uniform(1.0, kappa)]
    else:
        lo, hi = 1.0, float(kappa)
        vals = [lo, hi] + [math.exp(rng.uniform(math.log(lo), math.log(hi))) for _ in range(n - 2)]
        rng.shuffle(vals)
    if kind == "indef":
        signs = [1 if i % 2 == 0 else -1 for i in range(n)]
        rng.shuffle(signs)
        vals = [v * s for v, s in zip(vals, signs)]
    return vals


def make_matrix(kind, n, batch, dtype, kappa, rng, gen=None):
    """dense matrix of the requested spectral kind: 'spd', 'indef' (Hermitian), 'nonherm'; cond(A) <= kappa"""
    rdt = torch.float64 if dtype in (torch.float64, torch.complex128) else torch.float32
    nb = 1
    for b in batch:
        nb *= b
    mats = []
    for _ in range(nb):
        s = torch.tensor(spectrum(kind, n, kappa, rng), dtype=rdt).to(dtype)
        q = rand_unitary(n, (), dtype, gen)
        if kind in ("spd", "indef"):
            m = (q * s) @ q.transpose(-2, -1).conj()
            m = 0.5 * (m + m.transpose(-2, -1).conj())
        else:
            q2 = rand_unitary(n, (), dtype, gen)
            m = (q * s) @ q2.transpose(-2, -1).conj()
        mats.append(m)
    return torch.stack(mats).reshape(*batch, n, n) if batch else mats[0]


# ---------------------------------------------------------------------------------------------- operator kinds
def _mv_from(getmat):
    def _mv(self, x):
        return torch.matmul(getmat(self), x.unsqueeze(-1)).squeeze(-1)
    return _mv


def fresh_linop_class(products, counter=None, base=None, extra_ns=None):
    """A brand-new LinearOperator subclass holding a dense tensor `mat`, exposing the given subset of
    {'mv','rmv','mm','rmm','fullmatrix'}.  `counter` (dict) counts the products that were evaluated."""
    import xitorch
    base = base or xitorch.LinearOperator

    def count(name):
        if counter is not None:
            counter[name] = counter.get(name, 0) + 1

    ns = {}

    def __init__(self, mat, is_hermitian=False):
        xitorch.LinearOperator.__init__(self, shape=mat.shape, is_hermitian=is_hermitian, dtype=mat.dtype,
                                        device=mat.device, _suppress_hermit_warning=True)
        self.mat = mat
    ns["__init__"] = __init__

    def _getparamnames(self, prefix=""):
        return [prefix + "mat"]
    ns["_getparamnames"] = _getparamnames
    if "mv" in products:
        def _mv(self, x):
            count("mv")
            return torch.matmul(self.mat, x.unsqueeze(-1)).squeeze(-1)
        ns["_mv"] = _mv
    if "rmv" in products:
        def _rmv(self, x):
            count("rmv")
            return torch.matmul(self.mat.transpose(-2, -1).conj(), x.unsqueeze(-1)).squeeze(-1)
        ns["_rmv"] = _rmv
    if "mm" in products:
        def _mm(self, x):
            count("mm")
            return torch.matmul(self.mat, x)
        ns["_mm"] = _mm
    if "rmm" in products:
        def _rmm(self, x):
            count("rmm")
            return torch.matmul(self.mat.transpose(-2, -1).conj(), x)
        ns["_rmm"] = _rmm
    if "fullmatrix" in products:
        def _fullmatrix(self):
            count("fullmatrix")
            return self.mat
        ns["_fullmatrix"] = _fullmatrix
    if extra_ns:
        ns.update(extra_ns)
    return type("VfLinOp%d" % next(_cls_counter), (base,), ns)


LEAF_KINDS = {
    "mv": ("mv",),
    "mv_rmv": ("mv", "rmv"),
    "mv_mm": ("mv", "mm"),
    "all": ("mv", "rmv", "mm", "rmm", "fullmatrix"),
}


def leaf_operator(kind, mat, counter=None):
    """operator of the given leaf kind representing the dense (possibly batched) matrix `mat`"""
    import xitorch
    if kind == "dense":
        return xitorch.LinearOperator.m(mat)
    if kind == "dense_herm":
        return xitorch.LinearOperator.m(mat, is_hermitian=True)
    if kind == "herm_mv":
        cls = fresh_linop_class(("mv",), counter)
        return cls(mat, is_hermitian=True)
    if kind == "herm_all":
        cls = fresh_linop_class(("mv", "mm", "fullmatrix"), counter)
        return cls(mat, is_hermitian=True)
    cls = fresh_linop_class(LEAF_KINDS[kind], counter)
    return cls(mat)


class LowRankOp:
    """diag(d) + U U^H as a matrix-free operator with two parameter tensors (built lazily: needs xitorch)"""

    @staticmethod
    def make(d, U, hermitian_flag, with_rmv):
        import xitorch
        ns = {}

        def __init__(self, d, U):
            n = d.shape[-1]
            batch = torch.broadcast_shapes(d.shape[:-1], U.shape[:-2])
            xitorch.LinearOperator.__init__(self, shape=(*batch, n, n), is_hermitian=hermitian_flag, dtype=U.dtype,
                                            device=U.device, _suppress_hermit_warning=True)
            self.d = d
            self.U = U

        def _mv(self, x):
            ux = torch.matmul(self.U.transpose(-2, -1).conj(), x.unsqueeze(-1))
            return self.d * x + torch.matmul(self.U, ux).squeeze(-1)

        def _getparamnames(self, prefix=""):
            return [prefix + "d", prefix + "U"]
        ns.update(__init__=__init__, _mv=_mv, _getparamnames=_getparamnames)
        if with_rmv:
            ns["_rmv"] = lambda self, x: (self.d.conj() * x + torch.matmul(
                self.U, torch.matmul(self.U.transpose(-2, -1).conj(), x.unsqueeze(-1))).squeeze(-1))
        cls = type("VfLowRank%d" % next(_cls_counter), (xitorch.LinearOperator,), ns)
        return cls(d, U)

    @staticmethod
    def dense(d, U):
        return torch.diag_embed(d) + torch.matmul(U, U.transpose(-2, -1).conj())


# ---------------------------------------------------------------------------------------------- batch patterns
BATCH_TUPLES_4 = [
    # (A, B, E, M) batch shapes that broadcast together
    ((), (), (), ()),
    ((2,), (), (), ()),
    ((), (2,), (), ()),
    ((), (), (2,), ()),
    ((), (), (), (2,)),
    ((2,), (2,), (2,), (2,)),
    ((1,), (3,), (1,), (3,)),
    ((3,), (1,), (3,), (1,)),
    ((2, 1), (1, 3), (), (3,)),
    ((3,), (2, 1), (2, 3), ()),
    ((2, 3), (3,), (1,), (2, 1)),
    ((1, 1), (2,), (3, 1), (1,)),
]


def bshape(*shapes):
    return tuple(torch.broadcast_shapes(*shapes))
