"""Problem families with a unique, independently computable solution for the optimize monitors (C03, C04).

Every family is a *contraction in disguise*: the residual whose root is sought is r(y) = y - h(y) with h a
q-contraction (q <= 0.6 stated per family), so the Jacobian of r has singular values in [1-q, 1+q] and the solution
is unique.  One family definition serves the three entry points:

    rootfinder : fcn(y, ...) = y - h(y)          equilibrium : fcn(y, ...) = h(y)
    minimize   : fcn(y, ...) = F(y) with grad F(y) = y - h(y)   (only the convex families define F)

The same plain-torch `residual` (never xitorch code) is used by the monitors to re-insert returned tensors, to build
the float64 reference solution and to unroll Newton steps for the gradient reference.  `present` wraps one problem as
the callable + params that xitorch receives (plain function / nn.Module / EditableModule / mixtures), with a spy log.
"""
import itertools
import math

import torch

from vf.common import HarnessBug

_cls_counter = itertools.count()

BATCHES = [(), (3,), (2, 2)]

# family -> (entry points it supports, complex?)
FAMILIES = {
    "tanh": (("rootfinder", "equilibrium"), False),
    "affine": (("rootfinder", "equilibrium"), False),
    "cplx": (("rootfinder", "equilibrium"), True),      # non-holomorphic, complex unknowns (forward only)
    "holo": (("rootfinder", "equilibrium"), True),      # holomorphic, complex unknowns and parameters
    "quad": (("minimize",), False),
    "quartic": (("minimize",), False),
}


def _unit_spectral(m):
    return m / torch.linalg.matrix_norm(m, ord=2)


class Problem:
    """theta: ordered dict name -> tensor (values only; callers decide which require grad);
    extras: ordered dict name -> python number (non-tensor parameters of the user function)."""

    def __init__(self, family, task, n, batch, dtype, theta, extras, q):
        self.family, self.task, self.n, self.batch, self.dtype = family, task, n, tuple(batch), dtype
        self.theta, self.extras, self.q = theta, extras, q
        self.yshape = tuple(batch) + (n,)

    # ---- the mathematics (plain torch).  `th` maps the theta names to tensors, `ex` the extras to numbers.
    def hmap(self, y, th, ex=None):
        ex = self.extras if ex is None else ex
        f = self.family
        if f == "tanh":
            return ex["q"] * torch.tanh(torch.matmul(y, th["W"].transpose(-2, -1)) + th["b"])
        if f == "affine":
            return torch.matmul(y, th["M"].transpose(-2, -1)) + th["c"]
        if f == "cplx":
            u = torch.matmul(y, th["C"].transpose(-2, -1)) + th["d"]
            return ex["q"] * u / (1 + u.abs())
        if f == "holo":
            u = torch.matmul(y, th["C"].transpose(-2, -1)) + th["d"]
            return ex["q"] * torch.sin(u)
        if f in ("quad", "quartic"):
            return y - self.gradF(y, th, ex)
        raise HarnessBug("family %s" % f)

    def objective(self, y, th, ex=None):
        ex = self.extras if ex is None else ex
        if self.family not in ("quad", "quartic"):
            raise HarnessBug("no objective for %s" % self.family)
        z = y - th["c"] if "c" in th else y
        Az = torch.matmul(z, th["A"].transpose(-2, -1))
        F = 0.5 * (z * Az).sum()
        if "b" in th:
            F = F - (th["b"] * y).sum()
        if self.family == "quartic":
            F = F + 0.25 * ex["s"] * (z ** 4).sum()
        return F

    def gradF(self, y, th, ex=None):
        ex = self.extras if ex is None else ex
        z = y - th["c"] if "c" in th else y
        A = th["A"]
        g = 0.5 * (torch.matmul(z, A.transpose(-2, -1)) + torch.matmul(z, A))
        if "b" in th:
            g = g - th["b"]
        if self.family == "quartic":
            g = g + ex["s"] * z ** 3
        return g

    def residual(self, y, th=None, ex=None):
        """what must vanish at the solution: y - h(y) (= grad F for the convex families)"""
        th = self.theta if th is None else th
        if self.family in ("quad", "quartic"):
            return self.gradF(y, th, ex)
        return y - self.hmap(y, th, ex)

    def user_value(self, y, th=None, ex=None):
        """value of the function the user hands to xitorch for this task"""
        th = self.theta if th is None else th
        if self.task == "rootfinder":
            return y - self.hmap(y, th, ex)
        if self.task == "equilibrium":
            return self.hmap(y, th, ex)
        return self.objective(y, th, ex)

    def stop_residual(self, y, th=None, ex=None):
        """the quantity whose norm the entry point's stopping test bounds, evaluated through the USER function:
        f(y) for rootfinder, f(y) - y for equilibrium, autograd gradient of the objective for minimize"""
        th = self.theta if th is None else th
        if self.task == "rootfinder":
            return self.user_value(y, th, ex)
        if self.task == "equilibrium":
            return self.user_value(y, th, ex) - y
        with torch.enable_grad():
            y1 = y.detach().clone().requires_grad_()
            z = self.objective(y1, th, ex)
            g, = torch.autograd.grad(z, (y1,))
        return g

    # ---- independent reference solution in double precision
    def reference(self):
        cd = torch.complex128 if self.dtype.is_complex else torch.float64
        th = {k: v.detach().to(cd) for k, v in self.theta.items()}
        y = torch.zeros(self.yshape, dtype=cd)
        last = None
        for it in range(600):
            r = self.residual(y, th)
            rn = float(torch.linalg.vector_norm(r))
            if rn == 0 or (last is not None and it > 20 and rn >= last and rn < 1e-13 * (1 + float(torch.linalg.vector_norm(y)))):
                break
            last = rn
            y = y - 0.5 * r      # damped: |I - J/2| <= (1+q)/2 for every family (J = I - H, |H| <= q < 1)
        rn = float(torch.linalg.vector_norm(self.residual(y, th)))
        if not rn <= 1e-12 * (1 + float(torch.linalg.vector_norm(y))):
            raise HarnessBug("reference iteration did not converge: |r|=%.3e family=%s" % (rn, self.family))
        return y, rn


def make_problem(family, task, n, batch, dtype, q, tgen, special=None):
    """special: None | 'dyadic' (affine M = m*I with dyadic m and integer data: exact arithmetic, roots reached exactly)
                | 'const' (affine with M = 0: the map is constant, its value is the fixed point)
                | 'homog' (zero offsets: y = 0 is the exact solution and f(0) == 0 bitwise)
                | 'center' (convex families written around a centre c: grad F(c) == 0 bitwise)"""
    rdt = torch.float32 if dtype in (torch.float32, torch.complex64) else torch.float64
    batch = tuple(batch)

    def rn(*shape, dt=dtype):
        return torch.randn(*shape, dtype=dt, generator=tgen) if shape else torch.randn((), dtype=dt, generator=tgen)

    extras = {}
    if family == "tanh":
        W = _unit_spectral(rn(n, n))
        b = rn(*batch, n)
        if special == "homog":
            b = torch.zeros_like(b)
        theta = {"W": W, "b": b}
        extras = {"q": float(q)}
    elif family == "affine":
        if special == "dyadic":
            m = [0.5, 0.25, 0.0, -0.5][int(torch.randint(0, 4, (1,), generator=tgen))]
            M = m * torch.eye(n, dtype=dtype)
            c = torch.randint(-4, 5, (*batch, n), generator=tgen).to(dtype)
            q = abs(m)
        elif special == "const":
            M = torch.zeros(n, n, dtype=dtype)
            c = torch.randint(-4, 5, (*batch, n), generator=tgen).to(dtype)
            c[..., 0] = 3.0
            q = 0.0
        else:
            M = _unit_spectral(rn(n, n)) * float(q)
            c = rn(*batch, n)
            if special == "homog":
                c = torch.zeros_like(c)
        theta = {"M": M, "c": c}
    elif family in ("cplx", "holo"):
        C = _unit_spectral(rn(n, n))
        d = rn(*batch, n)
        if family == "holo":
            # invariant ball |y| <= 0.5: |d| = 0.3, q <= 0.35 (see DESIGN text of C03): contraction q*cosh(0.8)
            d = 0.3 * d / max(float(torch.linalg.vector_norm(d)), 1e-30)
            q = min(float(q), 0.35)
        if special == "homog":
            d = torch.zeros_like(d)
        theta = {"C": C, "d": d}
        extras = {"q": float(q)}
    elif family in ("quad", "quartic"):
        # SPD Hessian with eigenvalues in [1-q, 1+q]
        Q, _ = torch.linalg.qr(rn(n, n, dt=rdt))
        q = min(float(q), 0.4)
        ev = 1.0 + q * (2 * torch.rand(n, dtype=rdt, generator=tgen) - 1)
        if n >= 2:
            ev[0], ev[1] = 1.0 - q, 1.0 + q
        A = (Q * ev) @ Q.T
        A = 0.5 * (A + A.T)
        theta = {"A": A.to(dtype)}
        if special == "center":
            theta["c"] = rn(*batch, n)
        else:
            theta["b"] = 0.4 * rn(*batch, n)
        if family == "quartic":
            extras = {"s": 0.05}
        q = min(float(q), 0.4)
    else:
        raise HarnessBug("unknown family %s" % family)
    return Problem(family, task, n, batch, dtype, theta, extras, float(q))


def contraction_bound(prob):
    """upper bound on the Lipschitz constant of y -> y - residual(y) near the solution (documented per family)"""
    if prob.family == "holo":
        return prob.q * math.cosh(0.8)
    if prob.family == "quartic":
        return prob.q + 0.15 * 1.5     # 3 s z^2 with s = 0.05, |z| <= 1.2
    return prob.q


# ------------------------------------------------------------------------------------------------ presentations
PLACEMENTS = ["explicit", "explicit_nt", "module", "module_mixed", "editable", "editable_derived", "editable_mixed",
              "explicit_dup", "module_dup"]        # *_dup: one tensor supplied in two places (twice in params / held by the module and in params)


class Presentation:
    """fcn/params: what xitorch receives.  leaves: name -> tensor the gradient may be asked for (only the ones with
    requires_grad).  materialize(leaves) -> theta dict in plain torch (how the presentation derives the tensors the
    function uses from the leaves) for the reference.  log: spy records (y, value, grad_enabled, phase)."""

    def __init__(self):
        self.fcn = None
        self.params = []
        self.leaves = {}
        self.materialize = None
        self.log = []
        self.obj = None
        self.phase = ["fwd"]


def present(prob, placement, grad_names=(), spy=True):
    """grad_names: theta names whose leaf gets requires_grad=True (others are plain tensors)."""
    P = Presentation()
    names = list(prob.theta.keys())
    ex = dict(prob.extras)
    log, phase = P.log, P.phase
    leaves = {}
    for k in names:
        t = prob.theta[k].detach().clone()
        if k in grad_names:
            t.requires_grad_()
        leaves[k] = t

    def record(y, out):
        if spy:
            log.append((y.detach().clone(), out.detach().clone(), torch.is_grad_enabled(), phase[0]))

    def value(y, th, exv):
        out = prob.user_value(y, th, exv)
        record(y, out)
        return out

    exnames = list(ex.keys())

    if placement in ("explicit", "explicit_nt", "explicit_dup"):
        # params: tensors and the non-tensor extras interleaved; explicit_nt adds ignored non-tensor / no-grad params
        order = []
        for i, k in enumerate(names):
            order.append(("t", k))
            if i < len(exnames):
                order.append(("x", exnames[i]))
        for k in exnames[len(names):]:
            order.append(("x", k))
        if placement == "explicit_nt":
            order.insert(1, ("n", "label"))
            order.append(("n", None))
            order.append(("u", "unused_tensor"))
            order.insert(0, ("i", "int_tensor"))       # non-differentiable tensor parameters: integer and bool dtype
            order.append(("i", "bool_tensor"))
        if placement == "explicit_dup":
            order.append(("t2", names[0]))      # the same tensor object once more: the function uses the mean of the two slots

        def fcn(y, *params):
            th, exv = {}, {}
            for (kind, k), p in zip(order, params):
                if kind == "t":
                    th[k] = p
                elif kind == "x":
                    exv[k] = p
            for (kind, k), p in zip(order, params):
                if kind == "t2":
                    th[k] = 0.25 * th[k] + 0.75 * p
            return value(y, th, exv)
        params = []
        for kind, k in order:
            if kind in ("t", "t2"):
                params.append(leaves[k])
            elif kind == "x":
                params.append(ex[k])
            elif kind == "n":
                params.append(k)
            elif kind == "i":
                params.append(torch.arange(3) if k == "int_tensor" else torch.tensor([True, False]))
            else:
                params.append(torch.ones(2, dtype=prob.theta[names[0]].dtype))
        P.fcn, P.params = fcn, params
        P.materialize = lambda lv: {k: lv[k] for k in names}
    elif placement in ("module", "module_mixed", "module_dup"):
        held = names if placement in ("module", "module_dup") else names[:1]
        rest = [k for k in names if k not in held]
        dup = placement == "module_dup"

        def __init__(self):
            torch.nn.Module.__init__(self)
            for k in held:
                setattr(self, k, torch.nn.Parameter(leaves[k].detach().clone(), requires_grad=(k in grad_names)))

        def forward(self, y, *params):
            th = {k: getattr(self, k) for k in held}
            for k, p in zip(rest, params):
                th[k] = p
            exv = dict(zip(exnames, params[len(rest):len(rest) + len(exnames)]))
            if dup:     # the module's own first parameter is passed explicitly as well
                th[names[0]] = 0.25 * th[names[0]] + 0.75 * params[-1]
            return value(y, th, exv)
        cls = type("VfOptModule%d" % next(_cls_counter), (torch.nn.Module,), {"__init__": __init__, "forward": forward})
        obj = cls()
        for k in held:
            leaves[k] = getattr(obj, k)
        P.obj, P.fcn = obj, obj.forward
        P.params = [leaves[k] for k in rest] + [ex[k] for k in exnames] + ([leaves[names[0]]] if dup else [])
        P.materialize = lambda lv: {k: lv[k] for k in names}
    elif placement in ("editable", "editable_derived", "editable_mixed"):
        import xitorch
        held = names if placement != "editable_mixed" else names[1:]
        rest = [k for k in names if k not in held]
        derived = placement == "editable_derived"
        if derived:
            sc = torch.ones((), dtype=prob.theta[names[0]].dtype)
            if grad_names:
                sc.requires_grad_()
            leaves["scale"] = sc

        def mat(lv):
            if derived:
                return {k: lv[k] * lv["scale"] for k in names}
            return {k: lv[k] for k in names}

        def __init__(self):
            th = mat(leaves)
            for k in held:
                setattr(self, k, th[k])
            self.extras = dict(ex)

        def forward(self, y, *params):
            th = {k: getattr(self, k) for k in held}
            for k, p in zip(rest, params):
                th[k] = p
            return value(y, th, self.extras)

        def getparamnames(self, methodname, prefix=""):
            if methodname == "forward":
                return [prefix + k for k in held]
            raise KeyError(methodname)
        cls = type("VfOptEditable%d" % next(_cls_counter), (xitorch.EditableModule,),
                   {"__init__": __init__, "forward": forward, "getparamnames": getparamnames})
        obj = cls()
        P.obj, P.fcn = obj, obj.forward
        P.params = [leaves[k] for k in rest]
        P.materialize = mat
    else:
        raise HarnessBug("placement %s" % placement)
    P.leaves = leaves
    return P
