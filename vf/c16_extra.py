"""Extra C16 scenario: second-order gradients through a loss that is NONLINEAR in the expectation (the cotangent reaching mcquad's backward
depends on the parameters) and parameters depending on one another through autograd history, with the deterministic 1-D quadrature
sampler.  Reference: E = sum_i softmax_i(log c_i + log p(x_i)) f(x_i) written in plain torch on the same leaves."""
import random

import numpy as np
import torch

from vf.common import Obs, sub_seed

DT = torch.float64


def cases(seed, tier):
    out = []
    n = 60 if tier == "quick" else 600
    for i in range(n):
        rng = random.Random(sub_seed(seed, "c16x", i))
        out.append({"group": "extra", "seed": sub_seed(seed, "c16xs", i), "chained": i % 2 == 1, "loss": ["exp", "square", "product"][i % 3],
                    "which": rng.choice(["a", "m", "s", "am", "ms", "ams", "ams"]), "ns": rng.choice([20, 40, 60]),
                    "holder": ["explicit", "em"][(i // 6) % 2]})
    # history on one object: expectation, the object's tensors re-assigned (a second generation derived from the same leaves), expectation again,
    # then ONE backward pass through a loss on both results
    nl = 24 if tier == "quick" else 240
    for i in range(nl):
        rng = random.Random(sub_seed(seed, "c16l", i))
        out.append({"group": "extra", "seed": sub_seed(seed, "c16ls", i), "chained": i % 2 == 1, "loss": ["exp", "square", "product"][i % 3],
                    "which": rng.choice(["a", "m", "s", "am", "ms", "ams", "ams"]), "ns": rng.choice([20, 40]), "holder": "em", "late": True})
    return out


def _ref(a, mu, sg, ns, lb, ub):
    tl, tu = np.arctan(lb), np.arctan(ub)
    t, w = np.polynomial.legendre.leggauss(ns)
    t = torch.tensor(t * (0.5 * (tu - tl)) + 0.5 * (tu + tl), dtype=DT)
    w = torch.tensor(w * 0.5 * (tu - tl), dtype=DT)
    x = torch.tan(t)
    lw = torch.log(w) - 2 * torch.log(torch.cos(t)) + (-0.5 * ((x - mu) / sg) ** 2)
    p = torch.softmax(lw, 0)
    return (p.unsqueeze(-1) * (a.unsqueeze(0) * x.unsqueeze(-1) ** 2 + torch.sin(a.unsqueeze(0) * x.unsqueeze(-1)))).sum(0)


def _loss(kind, y):
    if kind == "exp":
        return torch.exp(0.7 * y).sum()
    if kind == "square":
        return ((y - 0.4) ** 2).sum()
    return y.prod() + y.sum()


def run_case(desc):
    import xitorch
    from xitorch.integrate import mcquad
    obs = Obs(desc)
    tg = torch.Generator().manual_seed(desc["seed"])
    which, ns = desc["which"], desc["ns"]
    lb, ub = -8.0, 8.0
    vals = {"a": 0.5 + torch.rand(2, generator=tg, dtype=DT), "m": 0.4 * torch.randn(1, generator=tg, dtype=DT),
            "s": 0.9 + 0.4 * torch.rand(1, generator=tg, dtype=DT)}
    mech = "%s:%s:%s:%s%s" % ("chained" if desc["chained"] else "plain", which, desc["loss"], desc["holder"], ":late" if desc.get("late") else "")
    V = {k: torch.randn(v.shape, generator=tg, dtype=DT) for k, v in vals.items()}

    def run(kind):
        lv = {k: v.clone().requires_grad_(k in which) for k, v in vals.items()}
        a, mu, s0 = lv["a"], lv["m"], lv["s"]
        sg = (s0 + 0.2 * (a * a).sum()) if (desc["chained"] and "a" in which) else s0 * 1.0
        if kind == "ref":
            y = _ref(a, mu, sg, ns, lb, ub)
            if desc.get("late"):
                y = torch.cat([y, _ref(1.2 * a, mu + 0.3, sg * 0.8, ns, lb, ub)])
        else:
            f = lambda x, a_: (a_ * x * x + torch.sin(a_ * x)).reshape(-1)
            lp = lambda x, mu_, sg_: (-0.5 * ((x - mu_) / sg_) ** 2).sum()
            if desc["holder"] == "explicit":
                y = mcquad(f, lp, torch.zeros(1, dtype=DT), fparams=(a,), pparams=(mu, sg), method="_dummy1d", nsamples=ns, lb=lb, ub=ub)
            else:
                class E(xitorch.EditableModule):
                    def __init__(self):
                        self.a, self.held = a, [mu, sg]

                    def ff(self, x):
                        return f(x, self.a)

                    def lp(self, x):
                        return lp(x, self.held[0], self.held[1])

                    def getparamnames(self, methodname, prefix=""):
                        return [prefix + "a"] if methodname == "ff" else [prefix + "held[0]", prefix + "held[1]"]
                e = E()
                y = mcquad(e.ff, e.lp, torch.zeros(1, dtype=DT), method="_dummy1d", nsamples=ns, lb=lb, ub=ub)
                if desc.get("late"):
                    e.a, e.held = 1.2 * a, [mu + 0.3, sg * 0.8]          # the same object, second generation
                    y = torch.cat([y, mcquad(e.ff, e.lp, torch.zeros(1, dtype=DT), method="_dummy1d", nsamples=ns, lb=lb, ub=ub)])
        leaves = [lv[k] for k in ("a", "m", "s") if k in which]
        L = _loss(desc["loss"], y)
        g = torch.autograd.grad(L, leaves, create_graph=True, allow_unused=True)
        g = [torch.zeros_like(l) if gi is None else gi for gi, l in zip(g, leaves)]
        H = sum((gi * V[k]).sum() for gi, k in zip(g, [k for k in ("a", "m", "s") if k in which]) if gi.requires_grad)
        gg = torch.autograd.grad(H, leaves, allow_unused=True) if isinstance(H, torch.Tensor) and H.requires_grad else [None] * len(leaves)
        gg = [torch.zeros_like(l) if gi is None else gi for gi, l in zip(gg, leaves)]
        return y.detach(), [x.detach() for x in g], [x.detach() for x in gg]
    try:
        y1, g1, h1 = run("xitorch")
    except Exception as e:
        obs.exc_violation("extra:" + mech, e)
        obs.nontrivial = True
        return obs.result()
    y2, g2, h2 = run("ref")
    names = [k for k in ("a", "m", "s") if k in which]
    obs.check(float((y1 - y2).abs().max()) <= 1e-10 * (1 + float(y2.abs().max())), "extra_value:" + mech, "value differs from the explicit weighted mean")
    sc = max(1.0, max(float(x.abs().max()) for x in g2))
    for n_, a_, b_ in zip(names, g1, g2):
        err = float((a_ - b_).abs().max())
        obs.check(err <= 1e-9 * sc, "extra_grad1:%s:%s" % (n_, mech), "first-order gradient w.r.t. %s differs by %.3e (scale %.2e)" % (n_, err, sc))
    sc2 = max(1.0, max(float(x.abs().max()) for x in h2))
    for n_, a_, b_ in zip(names, h1, h2):
        err = float((a_ - b_).abs().max())
        obs.check(err <= 1e-8 * sc2, "extra_grad2:%s:%s" % (n_, mech),
                  "Hessian-vector product of a loss nonlinear in the expectation differs by %.3e (scale %.2e) w.r.t. %s" % (err, sc2, n_))
    obs.count("extra_second_order_compared", len(names))
    if desc.get("late"):
        obs.count("extra_late_backward_histories")
    obs.nontrivial = True
    return obs.result()
