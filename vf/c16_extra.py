"""Extra C16 scenario: second-order gradients through a loss that is NONLINEAR in the expectation (the cotangent reaching mcquad's backward
depends on the parameters) and parameters depending on one another through autograd history, with the deterministic 1-D quadrature
sampler.  Reference: E = sum_i softmax_i(log c_i + log p(x_i)) f(x_i) written in plain torch on the same leaves."""
import random

import numpy as np
import torch

from vf.common import Obs, sub_seed

DT = torch.float64


def cases(seed, tier):
    out = []
    n = 60 if tier == "quick" else 600
    for i in range(n):
        rng = random.Random(sub_seed(seed, "c16x", i))
        out.append({"group": "extra", "seed": sub_seed(seed, "c16xs", i), "chained": i % 2 == 1, "loss": ["exp", "square", "product", "stationary"][i % 4],
                    "which": rng.choice(["a", "m", "s", "am", "ms", "ams", "ams"]), "ns": rng.choice([20, 40, 60]),
                    "holder": ["explicit", "em"][(i // 6) % 2]})
    # history on one object: expectation, the object's tensors re-assigned (a second generation derived from the same leaves), expectation again,
    # then ONE backward pass through a loss on both results
    nl = 24 if tier == "quick" else 240
    for i in range(nl):
        rng = random.Random(sub_seed(seed, "c16l", i))
        out.append({"group": "extra", "seed": sub_seed(seed, "c16ls", i), "chained": i % 2 == 1, "loss": ["exp", "square", "product"][i % 3],
                    "which": rng.choice(["a", "m", "s", "am", "ms", "ams", "ams"]), "ns": rng.choice([20, 40]), "holder": "em", "late": True})
    # f and log p as two methods of ONE object that share a tensor under the same attribute (nn.Module / EditableModule)
    nsh = 30 if tier == "quick" else 300
    for i in range(nsh):
        rng = random.Random(sub_seed(seed, "c16s", i))
        out.append({"group": "extra", "kind": "shared_obj", "seed": sub_seed(seed, "c16ss", i), "holder": ["nn", "em", "em_owner"][i % 3],
                    "loss": ["exp", "square", "product"][(i // 3) % 3], "ns": rng.choice([20, 40]), "rgmask": rng.choice([[1, 1, 1], [1, 0, 1], [1, 1, 0], [1, 0, 0]])})
    # chain states of another dtype than the model (float32 / integer-valued x0, float64 f and log p), deterministic custom step
    nx = 30 if tier == "quick" else 300
    for i in range(nx):
        rng = random.Random(sub_seed(seed, "c16d", i))
        out.append({"group": "extra", "kind": "x0dtype", "seed": sub_seed(seed, "c16ds", i), "xdtype": ["float32", "int64", "float32", "int32", "float64"][i % 5],
                    "ns": rng.choice([3, 7, 10, 33, 100, 257]), "nb": rng.choice([0, 1, 4]), "const": i % 4 == 0, "inplace_step": i % 3 == 1})
    # round 6: tuple components of different dtypes / kinds, failing call followed by a normal one, log p known up to a constant
    from vf import c16_wide
    out.extend(c16_wide.cases(seed, tier))
    return out


def _ref(a, mu, sg, ns, lb, ub):
    tl, tu = np.arctan(lb), np.arctan(ub)
    t, w = np.polynomial.legendre.leggauss(ns)
    t = torch.tensor(t * (0.5 * (tu - tl)) + 0.5 * (tu + tl), dtype=DT)
    w = torch.tensor(w * 0.5 * (tu - tl), dtype=DT)
    x = torch.tan(t)
    lw = torch.log(w) - 2 * torch.log(torch.cos(t)) + (-0.5 * ((x - mu) / sg) ** 2)
    p = torch.softmax(lw, 0)
    return (p.unsqueeze(-1) * (a.unsqueeze(0) * x.unsqueeze(-1) ** 2 + torch.sin(a.unsqueeze(0) * x.unsqueeze(-1)))).sum(0)


def _loss(kind, y):
    if kind == "stationary":
        # a loss that is stationary in the expectation: the first-level cotangent is exactly zero but depends on the parameters
        return ((y - y.detach()) ** 2).sum() + 0.5 * (y * y.detach()).sum() * 0.0
    if kind == "exp":
        return torch.exp(0.7 * y).sum()
    if kind == "square":
        return ((y - 0.4) ** 2).sum()
    return y.prod() + y.sum()


def run_shared(desc):
    import xitorch
    from xitorch.integrate import mcquad
    obs = Obs(desc)
    tg = torch.Generator().manual_seed(desc["seed"])
    ns, lb, ub = desc["ns"], -8.0, 8.0
    vals = {"a": 0.5 + torch.rand(2, generator=tg, dtype=DT), "m": 0.4 * torch.randn(1, generator=tg, dtype=DT), "s": 0.9 + 0.4 * torch.rand(1, generator=tg, dtype=DT)}
    V = {k: torch.randn(v.shape, generator=tg, dtype=DT) for k, v in vals.items()}
    mask = dict(zip(("a", "m", "s"), desc["rgmask"]))
    holder = desc["holder"]
    mech = "shared_obj:%s:%s" % (holder, desc["loss"])

    def fbody(x, a):
        return (a * x * x + torch.sin(a * x)).reshape(-1)

    def lbody(x, a, mu, sg):
        return (-0.5 * ((x - mu - 0.2 * a.mean()) / sg) ** 2).sum()          # log p uses the SAME tensor a as f

    def run(kind):
        lv = {k: v.clone().requires_grad_(bool(mask[k])) for k, v in vals.items()}
        if kind == "ref":
            y = _ref(lv["a"], lv["m"] + 0.2 * lv["a"].mean(), lv["s"], ns, lb, ub)
            leaves = [lv[k] for k in ("a", "m", "s") if mask[k]]
        elif holder == "nn":
            class M(torch.nn.Module):
                def __init__(self):
                    super().__init__()
                    self.a = torch.nn.Parameter(lv["a"].detach().clone(), requires_grad=bool(mask["a"]))
                    self.m = torch.nn.Parameter(lv["m"].detach().clone(), requires_grad=bool(mask["m"]))
                    self.s = torch.nn.Parameter(lv["s"].detach().clone(), requires_grad=bool(mask["s"]))

                def ff(self, x):
                    return fbody(x, self.a)

                def lp(self, x):
                    return lbody(x, self.a, self.m, self.s)
            o = M()
            y = mcquad(o.ff, o.lp, torch.zeros(1, dtype=DT), method="_dummy1d", nsamples=ns, lb=lb, ub=ub)
            leaves = [t for t, k in ((o.a, "a"), (o.m, "m"), (o.s, "s")) if mask[k]]
        else:
            class Dist(object):
                def __init__(self):
                    self.m, self.s = lv["m"], lv["s"]

            class E(xitorch.EditableModule):
                def __init__(self):
                    self.a = lv["a"]
                    self.dist = Dist() if holder == "em_owner" else None
                    if holder == "em":
                        self.m, self.s = lv["m"], lv["s"]

                def _ms(self):
                    return (self.dist.m, self.dist.s) if holder == "em_owner" else (self.m, self.s)

                def ff(self, x):
                    return fbody(x, self.a)

                def lp(self, x):
                    return lbody(x, self.a, *self._ms())

                def getparamnames(self, methodname, prefix=""):
                    if methodname == "ff":
                        return [prefix + "a"]
                    if methodname == "lp":
                        return [prefix + "a"] + [prefix + n for n in (("dist.m", "dist.s") if holder == "em_owner" else ("m", "s"))]
                    raise KeyError(methodname)
            o = E()
            y = mcquad(o.ff, o.lp, torch.zeros(1, dtype=DT), method="_dummy1d", nsamples=ns, lb=lb, ub=ub)
            leaves = [lv[k] for k in ("a", "m", "s") if mask[k]]
        names = [k for k in ("a", "m", "s") if mask[k]]
        L = _loss(desc["loss"], y)
        g = torch.autograd.grad(L, leaves, create_graph=True, allow_unused=True)
        g = [torch.zeros_like(l) if gi is None else gi for gi, l in zip(g, leaves)]
        H = sum((gi * V[k]).sum() for gi, k in zip(g, names) if gi.requires_grad)
        gg = torch.autograd.grad(H, leaves, allow_unused=True) if isinstance(H, torch.Tensor) and H.requires_grad else [None] * len(leaves)
        gg = [torch.zeros_like(l) if gi is None else gi for gi, l in zip(gg, leaves)]
        return y.detach(), [x.detach() for x in g], [x.detach() for x in gg], names
    try:
        y1, g1, h1, names = run("xitorch")
    except Exception as e:
        obs.exc_violation("extra:" + mech, e)
        obs.nontrivial = True
        return obs.result()
    y2, g2, h2, _ = run("ref")
    obs.check(float((y1 - y2).abs().max()) <= 1e-10 * (1 + float(y2.abs().max())), "extra_value:" + mech, "value differs from the explicit weighted mean")
    sc = max(1.0, max(float(x.abs().max()) for x in g2))
    for n_, a_, b_ in zip(names, g1, g2):
        err = float((a_ - b_).abs().max())
        obs.check(err <= 1e-9 * sc, "extra_grad1:%s:%s" % (n_, mech), "first-order gradient w.r.t. %s (f and log p are methods of one object sharing the tensor a) "
                  "differs by %.3e (scale %.2e)" % (n_, err, sc))
    sc2 = max(1.0, max(float(x.abs().max()) for x in h2))
    for n_, a_, b_ in zip(names, h1, h2):
        err = float((a_ - b_).abs().max())
        obs.check(err <= 1e-8 * sc2, "extra_grad2:%s:%s" % (n_, mech), "Hessian-vector product w.r.t. %s differs by %.3e (scale %.2e)" % (n_, err, sc2))
    obs.count("extra_shared_object_compared")
    obs.nontrivial = True
    return obs.result()


def run_x0dtype(desc):
    from xitorch.integrate import mcquad
    obs = Obs(desc)
    tg = torch.Generator().manual_seed(desc["seed"])
    ns, nb = desc["ns"], desc["nb"]
    xdt = getattr(torch, desc["xdtype"])
    integer = not xdt.is_floating_point
    if integer:
        x0 = torch.randint(-3, 4, (2,), generator=tg).to(xdt)

        def step_map(x):                      # deterministic walk on the integer lattice
            return (x * 3 + 1) % 7 - 3
    else:
        x0 = (torch.randn(2, generator=tg, dtype=DT) * 0.5).to(xdt)

        def step_map(x):                      # deterministic chaotic map kept in x's own dtype
            return (torch.sin(x * 2.7 + 0.3) * 1.5).to(x.dtype)
    if desc.get("inplace_step"):
        def step(x, *pp):                     # the caller's step advances the state IN PLACE and hands back the same tensor object
            x.copy_(step_map(x))
            return x
    else:
        def step(x, *pp):
            return step_map(x)
    a = (0.5 + torch.rand(2, generator=tg, dtype=DT)).requires_grad_()
    mu = (0.3 * torch.randn(2, generator=tg, dtype=DT)).requires_grad_()
    cconst = torch.randn(3, generator=tg, dtype=DT)

    def f(x, a_):
        if desc["const"]:
            return cconst + 0.0 * a_.sum()
        xx = x.to(DT)
        return torch.cat([a_ * xx * xx, torch.sin(a_ * xx).sum().reshape(1)])

    def logp(x, mu_):
        return (-0.5 * (x.to(DT) - mu_) ** 2).sum()
    mech = "x0dtype:%s:%s%s" % (desc["xdtype"], "const" if desc["const"] else "f", ":inplace_step" if desc.get("inplace_step") else "")
    x0_start = x0.clone()
    try:
        y = mcquad(f, logp, x0.clone(), fparams=(a,), pparams=(mu,), method="mhcustom", nsamples=ns, nburnout=nb, custom_step=step)
        ga, = torch.autograd.grad(y.sum(), (a,), allow_unused=True)
    except Exception as e:
        obs.exc_violation("extra:" + mech, e)
        obs.nontrivial = True
        return obs.result()
    chain = [x0_start]
    for _ in range(nb + ns + 1):
        chain.append(step_map(chain[-1]))
    obs.check(y.dtype == DT, "extra:dtype:" + mech, "f and log p compute in float64 but the result is %s" % y.dtype)
    best, bestg = None, None
    for start in (nb, nb + 1):                # first sample = state number nburnout or nburnout+1 (both accepted, as in the main groups)
        a2 = a.detach().clone().requires_grad_()
        ref = sum(f(xk, a2) for xk in chain[start:start + ns]) / ns
        gr, = torch.autograd.grad(ref.sum(), (a2,), allow_unused=True)
        err = float((y.detach() - ref.detach()).abs().max())
        if best is None or err < best:
            best, bestg, scale = err, gr, 1.0 + float(ref.detach().abs().max())
    obs.check(best <= 1e-13 * scale * max(1.0, ns ** 0.5), "extra:value:" + mech,
              "result differs from the mean of f over the %d chain states by %.3e (chain states of dtype %s; weights must sum to one in the model's precision)" % (ns, best, desc["xdtype"]), ns=ns)
    ga = torch.zeros_like(a) if ga is None else ga
    bestg = torch.zeros_like(a) if bestg is None else bestg
    errg = float((ga - bestg).abs().max())
    obs.check(errg <= 1e-12 * (1.0 + float(bestg.abs().max())) * max(1.0, ns ** 0.5), "extra:grad:" + mech, "gradient w.r.t. f's parameter differs from the mean of df/da over the chain states by %.3e" % errg)
    obs.count("extra_x0dtype_compared")
    obs.nontrivial = True
    return obs.result()


def run_case(desc):
    if desc.get("kind") == "shared_obj":
        return run_shared(desc)
    if desc.get("kind") == "x0dtype":
        return run_x0dtype(desc)
    if desc.get("kind") in ("mixdtype", "abort_reuse", "offset"):
        from vf import c16_wide
        return c16_wide.run_case(desc)
    import xitorch
    from xitorch.integrate import mcquad
    obs = Obs(desc)
    tg = torch.Generator().manual_seed(desc["seed"])
    which, ns = desc["which"], desc["ns"]
    lb, ub = -8.0, 8.0
    vals = {"a": 0.5 + torch.rand(2, generator=tg, dtype=DT), "m": 0.4 * torch.randn(1, generator=tg, dtype=DT),
            "s": 0.9 + 0.4 * torch.rand(1, generator=tg, dtype=DT)}
    mech = "%s:%s:%s:%s%s" % ("chained" if desc["chained"] else "plain", which, desc["loss"], desc["holder"], ":late" if desc.get("late") else "")
    V = {k: torch.randn(v.shape, generator=tg, dtype=DT) for k, v in vals.items()}

    def run(kind):
        lv = {k: v.clone().requires_grad_(k in which) for k, v in vals.items()}
        a, mu, s0 = lv["a"], lv["m"], lv["s"]
        sg = (s0 + 0.2 * (a * a).sum()) if (desc["chained"] and "a" in which) else s0 * 1.0
        if kind == "ref":
            y = _ref(a, mu, sg, ns, lb, ub)
            if desc.get("late"):
                y = torch.cat([y, _ref(1.2 * a, mu + 0.3, sg * 0.8, ns, lb, ub)])
        else:
            f = lambda x, a_: (a_ * x * x + torch.sin(a_ * x)).reshape(-1)
            lp = lambda x, mu_, sg_: (-0.5 * ((x - mu_) / sg_) ** 2).sum()
            if desc["holder"] == "explicit":
                y = mcquad(f, lp, torch.zeros(1, dtype=DT), fparams=(a,), pparams=(mu, sg), method="_dummy1d", nsamples=ns, lb=lb, ub=ub)
            else:
                class E(xitorch.EditableModule):
                    def __init__(self):
                        self.a, self.held = a, [mu, sg]

                    def ff(self, x):
                        return f(x, self.a)

                    def lp(self, x):
                        return lp(x, self.held[0], self.held[1])

                    def getparamnames(self, methodname, prefix=""):
                        return [prefix + "a"] if methodname == "ff" else [prefix + "held[0]", prefix + "held[1]"]
                e = E()
                y = mcquad(e.ff, e.lp, torch.zeros(1, dtype=DT), method="_dummy1d", nsamples=ns, lb=lb, ub=ub)
                if desc.get("late"):
                    e.a, e.held = 1.2 * a, [mu + 0.3, sg * 0.8]          # the same object, second generation
                    y = torch.cat([y, mcquad(e.ff, e.lp, torch.zeros(1, dtype=DT), method="_dummy1d", nsamples=ns, lb=lb, ub=ub)])
        leaves = [lv[k] for k in ("a", "m", "s") if k in which]
        L = _loss(desc["loss"], y)
        g = torch.autograd.grad(L, leaves, create_graph=True, allow_unused=True)
        g = [torch.zeros_like(l) if gi is None else gi for gi, l in zip(g, leaves)]
        H = sum((gi * V[k]).sum() for gi, k in zip(g, [k for k in ("a", "m", "s") if k in which]) if gi.requires_grad)
        gg = torch.autograd.grad(H, leaves, allow_unused=True) if isinstance(H, torch.Tensor) and H.requires_grad else [None] * len(leaves)
        gg = [torch.zeros_like(l) if gi is None else gi for gi, l in zip(gg, leaves)]
        return y.detach(), [x.detach() for x in g], [x.detach() for x in gg]
    try:
        y1, g1, h1 = run("xitorch")
    except Exception as e:
        obs.exc_violation("extra:" + mech, e)
        obs.nontrivial = True
        return obs.result()
    y2, g2, h2 = run("ref")
    names = [k for k in ("a", "m", "s") if k in which]
    obs.check(float((y1 - y2).abs().max()) <= 1e-10 * (1 + float(y2.abs().max())), "extra_value:" + mech, "value differs from the explicit weighted mean")
    sc = max(1.0, max(float(x.abs().max()) for x in g2))
    for n_, a_, b_ in zip(names, g1, g2):
        err = float((a_ - b_).abs().max())
        obs.check(err <= 1e-9 * sc, "extra_grad1:%s:%s" % (n_, mech), "first-order gradient w.r.t. %s differs by %.3e (scale %.2e)" % (n_, err, sc))
    sc2 = max(1.0, max(float(x.abs().max()) for x in h2))
    for n_, a_, b_ in zip(names, h1, h2):
        err = float((a_ - b_).abs().max())
        obs.check(err <= 1e-8 * sc2, "extra_grad2:%s:%s" % (n_, mech),
                  "Hessian-vector product of a loss nonlinear in the expectation differs by %.3e (scale %.2e) w.r.t. %s" % (err, sc2, n_))
    obs.count("extra_second_order_compared", len(names))
    if desc.get("late"):
        obs.count("extra_late_backward_histories")
    obs.nontrivial = True
    return obs.result()
