"""C05, additional workload dimensions.

* A AND M OF DIFFERENT DTYPE (`mix_cases`, run by c05.run_symeig: descriptor key `mixdtype`): a real symmetric positive-definite M is a
  legitimate Hermitian positive-definite metric for a complex Hermitian A, and a complex Hermitian positive-definite M for a real
  symmetric A.  Dense methods only (default, exacteig, custom_exacteig: the property restricts complex arithmetic to the dense
  paths).  `cA_rM` = complex128 A + float64 M (all designed spectra: A = L Q diag(lam) Q^H L^T with M = L L^T), `rA_cM` = float64 A +
  complex128 M (A and M independent, spectrum kind 'free': the generalised spectrum of a real A in a complex metric cannot be designed
  with a real A).  Oracle: every clause of the symeig group, against scipy.linalg.eigh of the matrices promoted to complex128.
* OPERATORS WITH SMALL OR ZERO SINGULAR VALUES (`lowrank_cases`, `run_lowrank`, group `svd_lowrank`): rank-deficient operators (exact
  zeros among the singular values) and operators of condition 1e7, tall / wide / square, k full and k partial from either end, dense
  methods.  The clauses that hold on such operators are asserted with tolerances derived from the error model of the documented route
  through the Gram operator (keys `svdx_*`); the clauses of the property statement that do not hold there are reported under the keys
  `svd_orth:<class>:*`, `svd_Av:<class>:*`, `svd_vals:<class>:*` (class in {rankdef, illcond}) - see ERROR MODEL below.
* WEAKLY COUPLED OPERATOR WITH THE IDENTITY START (`weak_cases`, `run_weak`, group `weakcoupled`): directed witnesses of the listed
  davidson misconvergence: diag(1..n) with one far-away diagonal entry at a late position, nearest-neighbour coupling 1e-3,
  v_init="eye".  The start block has a negligible component along the localised extreme eigenvector; the residual test is met by the
  locally converged Ritz pairs.  Classified with the same rule as in the symeig group (':misconverged').

ERROR MODEL of svd through the Gram operator G = A^H A (m >= n; A A^H otherwise), eigen-solved by LAPACK (dense methods):
  eigenvalues lambda_i of G carry an absolute error <= C eps max(m,n) smax^2 and the eigenvectors ("eigen side": V for m >= n, U for
  m < n) are orthonormal to C eps max(m,n); therefore
    (g1) |s_i^2 - sigma_i^2| <= C eps max(m,n) smax^2                      (asserted, `svdx_gram`)
    (g2) the eigen-side factor is orthonormal to C eps max(m,n)            (asserted, `svdx_ortheig`)
    (g3) the columns of the derived factor (A v_i / s_i) that belong to sigma_i >= 0.05 smax are orthonormal among themselves to
         C eps max(m,n) (smax/sigma_i)^2 <= 400 C eps max(m,n)             (asserted, `svdx_orth_large`), and satisfy
         |A v_i - s_i u_i| <= 20 C eps max(m,n) smax                       (asserted, `svdx_Av_large`)
    (g4) U diag(S) V^H = A P with P the projector on the eigen-side columns with s_i >= 1e-12, and |A (I - P)| = O(eps smax) because the
         eigenvectors are accurate to eps / gap: reconstruction within 10 C eps max(m,n) smax for full k   (asserted, `svdx_recon`)
  whereas a backward-stable SVD would also give |s_i - sigma_i| <= C eps max(m,n) smax, orthonormal derived columns and
  |A v_i - s_i u_i| <= C eps max(m,n) smax for EVERY i: these three clauses are evaluated with the tolerance C eps max(m,n) smax (values,
  A v = s u) and 400 C eps max(m,n) (orthonormality of the whole derived factor) and reported per class.
"""
import math
import random

import numpy as np
import torch

from vf.common import WarnLog, HarnessBug
from vf import gen

EPS = 2.220446049250313e-16
C = 2000.0
MIX_KINDS = ["cA_rM", "rA_cM"]
MIX_METHODS = [None, "exacteig", "custom_exacteig"]
MIX_DTYPES = {"cA_rM": (torch.complex128, torch.float64), "rA_cM": (torch.float64, torch.complex128)}


def mix_tag(desc):
    """suffix of the M tag in the mechanism keys"""
    mix = desc.get("mixdtype")
    return ("mix-" + mix.replace("_", "-")) if mix else ""


# ------------------------------------------------------------------------------------------------------ mixed dtype of A and M
def mix_cases(seed, tier, sub_seed, modes, specs, opkinds_a, opkinds_m, full_a_pairs, all_pairs):
    out = []
    N = 360 if tier == "quick" else 6000
    for i in range(N):
        rng = random.Random(sub_seed(seed, "c05mix", i))
        mix = MIX_KINDS[i % 2]
        n = rng.choice([1, 2, 3, 4, 5, 6, 8, 10])
        r = rng.random()
        neig = 1 if r < 0.1 else (n if r < 0.25 else rng.randint(1, n))
        d = {"group": "symeig", "mixdtype": mix, "seed": sub_seed(seed, "c05mixs", i), "method": MIX_METHODS[(i // 2) % 3], "n": n,
             "mode": rng.choice(modes), "neig": neig, "neig_none": bool(neig == n and rng.random() < 0.5), "withM": True,
             "spec": "free" if mix == "rA_cM" else rng.choice(specs), "straddle": rng.random() < 0.6, "dtype": "complex128",
             "opA": rng.choice(opkinds_a), "opM": rng.choice(opkinds_m), "kappaM": rng.choice([2.0, 5.0, 10.0])}
        pairs = all_pairs if d["spec"] == "free" else full_a_pairs
        d["batch"] = list(map(list, rng.choice(pairs)))
        out.append(d)
    return out


# ------------------------------------------------------------------------------------------------------ svd, small / zero singular values
LOWRANK_CLASSES = ["rankdef", "illcond"]
LOWRANK_METHODS = [None, "exacteig", "custom_exacteig"]


def lowrank_cases(seed, tier, sub_seed):
    out = []
    reps = 1 if tier == "quick" else 4
    i = 0
    for rep in range(reps):
        for cls in LOWRANK_CLASSES:
            for shape in ("tall", "wide", "square"):
                for method in LOWRANK_METHODS:
                    for dtype in ("float64", "complex128"):
                        for ksel in ("full", "part_lowest", "part_uppest", "full_lowest"):
                            rng = random.Random(sub_seed(seed, "c05lr", i))
                            p = rng.choice([2, 3, 4, 6])
                            out.append({"group": "svd_lowrank", "seed": sub_seed(seed, "c05lrs", i), "cls": cls, "shape": shape,
                                        "method": method, "dtype": dtype, "ksel": ksel, "p": p, "extra": rng.choice([1, 2, 5]),
                                        "nsmall": rng.randint(1, max(1, p // 2)), "scale": rng.choice([0.3, 1.0, 5.0]),
                                        "batch": list(rng.choice([(), (), (2,)])), "opA": rng.choice(["dense", "mv_rmv", "all"])})
                            i += 1
    return out


def run_lowrank(desc, obs, reach_spies, new_log, count_reach):
    from xitorch.linalg import svd
    rng = random.Random(desc["seed"])
    tgen = torch.Generator().manual_seed(desc["seed"])
    dt = gen.rdtype(desc["dtype"])
    cls, shape, method, ksel = desc["cls"], desc["shape"], desc["method"], desc["ksel"]
    p, nsmall, scale = desc["p"], desc["nsmall"], desc["scale"]
    m, n = {"tall": (p + desc["extra"], p), "wide": (p, p + desc["extra"]), "square": (p, p)}[shape]
    BA = tuple(desc["batch"])
    nb = int(np.prod(BA)) if BA else 1
    if p - nsmall < 1:
        raise HarnessBug("at least one singular value of order one is needed")
    mats, designed = [], []
    for _ in range(nb):
        big = sorted(rng.uniform(0.1, 1.0) for _ in range(p - nsmall))
        big[-1] = 1.0
        if cls == "rankdef":
            small = [0.0] * nsmall
        else:
            small = sorted(rng.choice([1e-7, 3e-7]) * rng.uniform(1.0, 2.0) for _ in range(nsmall))
        sv = torch.tensor([scale * v for v in small + big], dtype=torch.float64)          # ascending
        u = gen.rand_unitary(m, (), dt, tgen)[:, :p]
        v = gen.rand_unitary(n, (), dt, tgen)[:, :p]
        mats.append((u * sv.to(dt)) @ v.transpose(-2, -1).conj())
        designed.append(sv)
    A = torch.stack(mats).reshape(*BA, m, n) if BA else mats[0]
    sdes = torch.stack(designed).reshape(*BA, p) if BA else designed[0]                     # designed values, ascending
    smax = scale
    counter = {}
    Aop = gen.leaf_operator(desc["opA"], A, counter)
    if ksel == "full":
        k, mode = p, None
    elif ksel == "full_lowest":
        k, mode = p, "lowest"
    elif ksel == "part_lowest":
        k, mode = nsmall, "lowest"
    else:
        k, mode = p - nsmall, "uppermost"
    low = mode == "lowest"
    tag = "%s:%s:%s:%s" % (cls, method or "default", shape, ksel)
    kw = {}
    if mode is not None:
        kw["mode"] = mode
    if method is not None:
        kw["method"] = method
    log = new_log()
    obs.count("svd_%s" % cls)
    with WarnLog(), torch.no_grad(), reach_spies(log):
        try:
            U, S, Vh = svd(Aop, k, **kw)
        except Exception as e:
            count_reach(obs, log, method, p, k)
            obs.exc_violation("svdx:%s" % tag, e, opA=desc["opA"], dtype=desc["dtype"])
            obs.nontrivial = True
            return
    count_reach(obs, log, method, p, k)
    obs.count("svd_lowrank_%s" % shape)
    obs.count("svd_lowrank_%s" % ksel)
    want = (BA + (m, k), BA + (k,), BA + (k, n))
    got = (tuple(U.shape), tuple(S.shape), tuple(Vh.shape))
    if not obs.check(got == want, "svdx_shape:%s" % tag, "returned shapes %s, expected %s" % (got, want)):
        obs.nontrivial = True
        return
    fin = all(bool(torch.isfinite(t.abs()).all()) for t in (U, S, Vh))
    if not obs.check(fin, "svdx_finite:%s" % tag, "non-finite entries in the returned factors"):
        obs.nontrivial = True
        return
    obs.check(not S.is_complex(), "svdx_s_dtype:%s" % tag, "singular values returned with dtype %s" % S.dtype)
    S = (S.real if S.is_complex() else S).double()
    U, Vh = U.to(dt), Vh.to(dt)
    V = Vh.transpose(-2, -1).conj()
    base = C * EPS * max(m, n)
    obs.check(bool((S >= 0).all()), "svdx_nonneg:%s" % tag, "negative singular value returned", S=S)
    # the requested designed values; the implementation returns ascending eigenvalues of the Gram operator: compare sorted
    wantd = sdes[..., :k] if low else sdes[..., p - k:]
    Ss, order = torch.sort(S, dim=-1)
    # (g1) Gram-route accuracy of the values
    r_gram = float(((Ss ** 2 - wantd ** 2).abs() / (base * smax ** 2)).max())
    obs.check(r_gram <= 1, "svdx_gram:%s" % tag,
              "|s_i^2 - sigma_i^2| / (%g eps max(m,n) smax^2) = %.3e: the eigenvalues of the Gram operator are wrong" % (C, r_gram), m=m, n=n, k=k)
    # (g2) eigen side orthonormal
    eig_side, der_side = (U, V) if m < n else (V, U)
    Ik = torch.eye(k, dtype=dt)
    r_eig = float((eig_side.transpose(-2, -1).conj() @ eig_side - Ik).abs().max()) / base
    obs.check(r_eig <= 1, "svdx_ortheig:%s" % tag, "eigen-side factor (%s): |X^H X - I| / tolerance = %.3e" % ("U" if m < n else "V^H", r_eig),
              m=m, n=n, k=k)
    # columns in the order of S sorted ascending, so that they line up with the designed values
    idx = order.unsqueeze(-2)
    Gd = (der_side.transpose(-2, -1).conj() @ der_side - Ik).abs()
    Gd = torch.gather(torch.gather(Gd, -1, idx.expand(Gd.shape)), -2, idx.transpose(-2, -1).expand(Gd.shape))
    av = torch.linalg.vector_norm(A @ V - U * S.unsqueeze(-2).to(dt), dim=-2)
    av = torch.gather(av, -1, order)
    large = wantd > 0.05 * smax                                                                 # (*BA, k)
    pair_large = large.unsqueeze(-1) & large.unsqueeze(-2)
    tol_orth = 400 * base
    tol_av = 20 * base * smax
    # (g3) the part of the derived factor that belongs to the singular values of order smax
    r_ol = float((Gd * pair_large).max()) / tol_orth
    r_al = float((av * large).max()) / tol_av
    obs.check(r_ol <= 1, "svdx_orth_large:%s" % tag,
              "derived factor, columns of the singular values >= 0.05 smax: |X^H X - I| / tolerance = %.3e" % r_ol, m=m, n=n, k=k)
    obs.check(r_al <= 1, "svdx_Av_large:%s" % tag, "|A v_i - s_i u_i| / tolerance = %.3e for singular values >= 0.05 smax" % r_al, m=m, n=n, k=k)
    # (g4) reconstruction
    ratios = {"gram": r_gram, "ortheig": r_eig, "orth_large": r_ol, "Av_large": r_al}
    if k == p:
        er = float(((U * S.unsqueeze(-2).to(dt)) @ Vh - A).abs().max())
        ratios["recon"] = er / (10 * base * smax)
        obs.check(ratios["recon"] <= 1, "svdx_recon:%s" % tag, "|U diag(S) V^H - A| = %.3e (error/tolerance %.3e)" % (er, ratios["recon"]),
                  m=m, n=n)
    # ---- the clauses of the statement for EVERY returned triplet, with the tolerances of a backward-stable decomposition
    n_small = int((~large).sum())
    if n_small:
        obs.count("svd_lowrank_small_triplets_returned", n_small)
    e_orth = float(Gd.max())
    e_av = float(av.max())
    e_val = float((Ss - wantd).abs().max())
    ratios.update(orth_all=e_orth / tol_orth, Av_all=e_av / tol_av, vals_all=e_val / (base * smax))
    side = "V^H" if m < n else "U"
    obs.check(e_orth <= tol_orth, "svd_orth:%s" % tag,
              "the factor %s does not have orthonormal %s: |X^H X - I| = %.3e (tolerance %.1e); | |x_i|^2 - 1 | by ascending "
              "singular value: %s" % (side, "rows" if m < n else "columns", e_orth, tol_orth,
                                      ["%.3g" % x for x in torch.diagonal(Gd, dim1=-2, dim2=-1).reshape(-1, k)[0].tolist()]),
              m=m, n=n, k=k, designed=wantd.reshape(-1, k)[0].tolist(), returned=Ss.reshape(-1, k)[0].tolist())
    obs.check(e_av <= tol_av, "svd_Av:%s" % tag, "|A v_i - s_i u_i| = %.3e (tolerance %.1e) for a small singular value" % (e_av, tol_av),
              m=m, n=n, k=k, designed=wantd.reshape(-1, k)[0].tolist(), returned=Ss.reshape(-1, k)[0].tolist())
    obs.check(e_val <= base * smax, "svd_vals:%s" % tag,
              "singular values differ from the designed ones by %.3e (tolerance %.1e = %g eps max(m,n) smax)" % (e_val, base * smax, C),
              m=m, n=n, k=k, designed=wantd.reshape(-1, k)[0].tolist(), returned=Ss.reshape(-1, k)[0].tolist())
    obs.note(ratios={a: float("%.3g" % b) for a, b in ratios.items()}, path=log["path"], smax=smax)
    obs.nontrivial = True


# ------------------------------------------------------------------------------------------------------ weakly coupled operator, identity start
def weak_cases(seed, tier, sub_seed):
    out = []
    # (with mode "uppermost" the identity start walks through the whole chain and converges: the top Ritz vector always points to the
    # newest direction, whose residual is the coupling)
    for (n, pos, neig, mode, coupling) in [(60, 40, 1, "lowest", 1e-3), (60, 20, 1, "lowest", 1e-4), (80, 55, 2, "lowest", 1e-3),
                                           (40, 30, 1, "lowest", 1e-3)]:
        out.append({"group": "weakcoupled", "seed": 1, "n": n, "pos": pos, "neig": neig, "mode": mode, "coupling": coupling})
    return out


def run_weak(desc, obs, reach_spies, new_log, count_reach, matches_neighbours):
    import scipy.linalg
    import xitorch
    from xitorch.linalg import symeig
    n, pos, neig, mode = desc["n"], desc["pos"], desc["neig"], desc["mode"]
    low = mode == "lowest"
    dt = torch.float64
    d = torch.arange(1.0, n + 1, dtype=dt)
    d[pos] = -10.0 if low else n + 11.0
    off = torch.ones(n - 1, dtype=dt)
    A = torch.diag(d) + desc["coupling"] * (torch.diag(off, 1) + torch.diag(off, -1))
    key = "davidson:noM:%s:weakcoupled" % ("lowest" if low else "uppest")
    log = new_log()
    with WarnLog(), torch.no_grad(), reach_spies(log):
        try:
            E, X = symeig(xitorch.LinearOperator.m(A, is_hermitian=True), neig, mode, method="davidson", v_init="eye")
        except Exception as e:
            obs.exc_violation("symeig:%s" % key, e)
            obs.nontrivial = True
            return
    iters = count_reach(obs, log, "davidson", n, neig)
    obs.count("weakcoupled_cases")
    w = torch.from_numpy(scipy.linalg.eigh(A.numpy(), eigvals_only=True)).double()
    wsel = w[:neig] if low else w[n - neig:]
    normA = float(torch.linalg.matrix_norm(A, ord=2))
    tol = C * EPS * n * 2 * normA + 10 * math.sqrt(n) * 1e-6
    rn = float(torch.linalg.vector_norm(A @ X - X * E, dim=-2).max())
    on = float((X.T @ X - torch.eye(neig, dtype=dt)).abs().max())
    ev = float((E - wsel).abs().max())
    converged_exit = bool(log["take"]) and log["take"][-1][2] < n
    mis = ""
    if ev > tol:
        cand = (w[:neig + 2] if low else w[max(0, n - neig - 2):]).tolist()
        if converged_exit and rn <= tol and on <= 1e-7 and matches_neighbours(E.tolist(), cand, tol):
            mis = ":misconverged"
            obs.count("davidson_misconverged")
    obs.check(rn <= tol, "resid:%s" % key, "|A X - X E| column norm %.3e (tolerance %.3e)" % (rn, tol))
    obs.check(on <= 1e-7, "orth:%s" % key, "|X^T X - I| = %.3e" % on)
    obs.check(ev <= tol, "evals:%s%s" % (key, mis),
              "identity start on diag(1..n) with entry %g at position %d and coupling %g: returned %s, the %d %s of the LAPACK reference "
              "are %s (exit after %d Rayleigh-Ritz steps, subspace dimension %d of %d)" % (
                  float(d[pos]), pos, desc["coupling"], E.tolist(), neig, "lowest" if low else "uppermost", wsel.tolist(), iters,
                  log["take"][-1][2] if log["take"] else -1, n))
    obs.note(iters=iters, resid=rn, orth=on, evals_err=ev)
    obs.nontrivial = iters >= 2
