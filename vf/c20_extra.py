"""Extra C20 scenarios (group "extra"):

* empty    - structures that contain NO tensor (only containers and non-tensor leaves): the listing is empty, a rebuild (list and flat interface,
             unique or not) is a fresh copy of the structure - not the original containers, not the containers of an earlier rebuild - so that
             modifying a result changes neither the original nor later rebuilds; a non-empty list / a tensor with elements is rejected;
* listmut  - the caller modifies the LIST returned by get_param_tensor_list (append / clear / reorder): the Packer still lists the original
             tensors and rebuilds correctly.

Added after a seeding agent's side remarks on the unmodified tree (DESIGN 5b)."""
import copy
import random

import torch

from vf.common import Obs, sub_seed

DT = torch.float64


class Holder(object):
    def __init__(self, **kw):
        self.__dict__.update(kw)


def _empty_struct(rng, depth=0):
    kinds = ["list", "dict", "obj", "tuple_leaf"] if depth < 2 else ["list", "dict"]
    k = rng.choice(kinds)
    leaf = lambda: rng.choice([1, 2.5, "s", None, True, (1, 2)])       # noqa: E731
    if k == "list":
        return [leaf() if (depth >= 2 or rng.random() < 0.5) else _empty_struct(rng, depth + 1) for _ in range(rng.randint(0, 3))]
    if k == "dict":
        return {"k%d" % i: (leaf() if (depth >= 2 or rng.random() < 0.5) else _empty_struct(rng, depth + 1)) for i in range(rng.randint(0, 3))}
    if k == "obj":
        return Holder(a=leaf(), b=_empty_struct(rng, depth + 1))
    return [leaf(), {"t": (1, "x")}]


def _same(a, b):
    if isinstance(a, Holder):
        return isinstance(b, Holder) and _same(a.__dict__, b.__dict__)
    if isinstance(a, dict):
        return isinstance(b, dict) and list(a.keys()) == list(b.keys()) and all(_same(a[k], b[k]) for k in a)
    if isinstance(a, list):
        return isinstance(b, list) and len(a) == len(b) and all(_same(x, y) for x, y in zip(a, b))
    return type(a) is type(b) and a == b


def _containers(o, acc=None):
    acc = [] if acc is None else acc
    if isinstance(o, Holder):
        acc.append(o)
        _containers(o.__dict__, acc)
    elif isinstance(o, dict):
        acc.append(o)
        for v in o.values():
            _containers(v, acc)
    elif isinstance(o, list):
        acc.append(o)
        for v in o:
            _containers(v, acc)
    return acc


def cases(seed, tier):
    out = []
    n = 60 if tier == "quick" else 600
    for i in range(n):
        out.append({"group": "extra", "kind": ["empty", "listmut"][i % 2], "seed": sub_seed(seed, "c20x", i), "unique": (i // 2) % 2 == 0,
                    "mut": ["append", "clear", "reverse", "pop"][(i // 4) % 4]})
    return out


def run_case(desc):
    from xitorch._core.packer import Packer
    obs = Obs(desc)
    rng = random.Random(desc["seed"])
    tg = torch.Generator().manual_seed(desc["seed"])
    uq = bool(desc["unique"])
    mech = "%s:%s" % (desc["kind"], "unique" if uq else "all")
    if desc["kind"] == "empty":
        obj = _empty_struct(rng)
        if not isinstance(obj, (list, dict, Holder)):
            obj = [obj]
        orig = copy.deepcopy(obj)
        try:
            p = Packer(obj)
            lst = p.get_param_tensor_list(unique=uq)
            obs.check(list(lst) == [], "extra:empty:listing:" + mech, "a structure without tensors lists %d tensors" % len(lst))
            r1 = p.construct_from_tensor_list([], unique=uq)
            r2 = p.construct_from_tensor_list([], unique=uq)
            flat = p.get_param_tensor(unique=uq)
            obs.check(flat is None or flat.numel() == 0, "extra:empty:flat:" + mech, "get_param_tensor of a structure without tensors returned %s" % (flat,))
            r3 = p.construct_from_tensor(torch.zeros(0, dtype=DT) if flat is None else flat, unique=uq)
        except Exception as e:
            obs.exc_violation("extra:empty:call:" + mech, e)
            obs.nontrivial = True
            return obs.result()
        for nm, r in (("list", r1), ("list_again", r2), ("flat", r3)):
            obs.check(_same(r, orig), "extra:empty:structure:%s:%s" % (nm, mech), "the rebuilt structure differs from the original")
        ids_obj = {id(c) for c in _containers(obj)}
        for nm, r, others in (("list", r1, (r2, r3)), ("list_again", r2, (r3,))):
            shared_orig = [c for c in _containers(r) if id(c) in ids_obj]
            obs.check(not shared_orig, "extra:empty:shares_original:%s:%s" % (nm, mech), "the rebuilt structure contains %d container(s) of the original object" % len(shared_orig))
            for o in others:
                ids_o = {id(c) for c in _containers(o)}
                sh = [c for c in _containers(r) if id(c) in ids_o]
                obs.check(not sh, "extra:empty:rebuilds_share_containers:" + mech, "two rebuilds share %d container object(s)" % len(sh))
        # modify a result: later rebuilds and the original stay as they were
        cs = _containers(r1)
        if cs:
            c0 = cs[0]
            if isinstance(c0, list):
                c0.append("MUTATED")
            elif isinstance(c0, dict):
                c0["MUTATED"] = 1
            else:
                c0.MUTATED = 1
            try:
                r4 = p.construct_from_tensor_list([], unique=uq)
                obs.check(_same(r4, orig), "extra:empty:later_rebuild_sees_mutation:" + mech, "a rebuild made after the caller modified an earlier result differs from the original")
            except Exception as e:
                obs.exc_violation("extra:empty:call:" + mech, e)
            obs.check(_same(obj, orig), "extra:empty:original_modified:" + mech, "the original object changed")
        for bad, what in (([torch.ones(2, dtype=DT)], "a one-element list"),):
            try:
                p.construct_from_tensor_list(bad, unique=uq)
                obs.violation("extra:empty:wrong_length_accepted:list:" + mech, "%s was accepted for a structure without tensors" % what)
            except RuntimeError:
                obs.count("wrong_length_rejected")
            except Exception as e:
                obs.exc_violation("extra:empty:wrong_error:" + mech, e)
        try:
            p.construct_from_tensor(torch.ones(5, dtype=DT), unique=uq)
            obs.violation("extra:empty:wrong_length_accepted:flat:" + mech, "a tensor with 5 elements was accepted for a structure without tensors")
        except RuntimeError:
            obs.count("wrong_length_rejected")
        except Exception as e:
            obs.exc_violation("extra:empty:wrong_error:" + mech, e)
        obs.count("extra_empty_structures")
        obs.nontrivial = True
        return obs.result()
    # ---- listmut
    t = [torch.randn(2, generator=tg, dtype=DT), torch.randn(3, generator=tg, dtype=DT), torch.randn((), generator=tg, dtype=DT)]
    obj = {"a": [t[0], 1, {"x": t[1]}], "b": Holder(c=t[2], d=t[0] if rng.random() < 0.5 else "s")}
    try:
        p = Packer(obj)
        lst = p.get_param_tensor_list(unique=uq)
        want = list(lst)
        if desc["mut"] == "append":
            lst.append(torch.ones(1, dtype=DT))
        elif desc["mut"] == "clear":
            lst.clear()
        elif desc["mut"] == "reverse":
            lst.reverse()
        else:
            lst.pop()
        for uq2 in (uq, not uq):
            again = p.get_param_tensor_list(unique=uq2)
            ref = list(Packer(obj).get_param_tensor_list(unique=uq2))
            obs.check(len(again) == len(ref) and all(a is b for a, b in zip(again, ref)), "extra:listmut:listing_changed:%s:%s" % (desc["mut"], mech),
                      "after the caller modified a returned list (%s) the Packer lists %d tensors (a fresh Packer: %d)" % (desc["mut"], len(again), len(ref)))
        new = [torch.randn(x.shape, generator=tg, dtype=DT) for x in want]
        p.get_param_tensor_list(unique=uq)
        r = p.construct_from_tensor_list(new, unique=uq)
        got = Packer(r).get_param_tensor_list(unique=uq)
        obs.check(len(got) == len(new) and all(a is b for a, b in zip(got, new)), "extra:listmut:rebuild:%s:%s" % (desc["mut"], mech),
                  "a rebuild after the caller modified a returned list does not hold the supplied tensors in order")
    except Exception as e:
        obs.exc_violation("extra:listmut:call:%s:%s" % (desc["mut"], mech), e)
    obs.count("extra_listmut_histories")
    obs.nontrivial = True
    return obs.result()
