"""Extra C20 scenarios (group "extra"):

* empty    - structures that contain NO tensor (only containers and non-tensor leaves): the listing is empty, a rebuild (list and flat interface,
             unique or not) is a fresh copy of the structure - not the original containers, not the containers of an earlier rebuild - so that
             modifying a result changes neither the original nor later rebuilds; a non-empty list / a tensor with elements is rejected;
* listmut  - the caller modifies the LIST returned by get_param_tensor_list (append / clear / reorder): the Packer still lists the original
             tensors and rebuilds correctly.

* origmut  - the CALLER modifies nested containers / non-tensor content of its own object after Packer(obj) (append to a nested list, new key in a
             nested dict, attribute of a nested object, a nested tensor slot replaced): "non-tensor content is copied" - the Packer must still
             list the tensors and rebuild the structure as it was when it was packed, through both interfaces; shapes where the number of
             top-level entries equals the number of tensor slots ("looks flat") are generated on purpose (round-5 seed);
* flatsrc  - the flat interface with a supplied tensor that differs from the packed tensors in dtype and/or is part of an autograd graph,
             incl. structures ALL of whose tensors have zero elements: every slot must hold the i-th chunk of the SUPPLIED tensor (shape of
             the packed slot, dtype / requires_grad of the supplied tensor, never the original tensor object), aliased slots aliased again.

Added after a seeding agent's side remarks on the unmodified tree (DESIGN 5b) and in seeding round 5."""
import copy
import random

import torch

from vf.common import Obs, sub_seed

DT = torch.float64


class Holder(object):
    def __init__(self, **kw):
        self.__dict__.update(kw)


def _empty_struct(rng, depth=0):
    kinds = ["list", "dict", "obj", "tuple_leaf"] if depth < 2 else ["list", "dict"]
    k = rng.choice(kinds)
    leaf = lambda: rng.choice([1, 2.5, "s", None, True, (1, 2)])       # noqa: E731
    if k == "list":
        return [leaf() if (depth >= 2 or rng.random() < 0.5) else _empty_struct(rng, depth + 1) for _ in range(rng.randint(0, 3))]
    if k == "dict":
        return {"k%d" % i: (leaf() if (depth >= 2 or rng.random() < 0.5) else _empty_struct(rng, depth + 1)) for i in range(rng.randint(0, 3))}
    if k == "obj":
        return Holder(a=leaf(), b=_empty_struct(rng, depth + 1))
    return [leaf(), {"t": (1, "x")}]


def _same(a, b):
    if isinstance(a, Holder):
        return isinstance(b, Holder) and _same(a.__dict__, b.__dict__)
    if isinstance(a, dict):
        return isinstance(b, dict) and list(a.keys()) == list(b.keys()) and all(_same(a[k], b[k]) for k in a)
    if isinstance(a, list):
        return isinstance(b, list) and len(a) == len(b) and all(_same(x, y) for x, y in zip(a, b))
    return type(a) is type(b) and a == b


def _containers(o, acc=None):
    acc = [] if acc is None else acc
    if isinstance(o, Holder):
        acc.append(o)
        _containers(o.__dict__, acc)
    elif isinstance(o, dict):
        acc.append(o)
        for v in o.values():
            _containers(v, acc)
    elif isinstance(o, list):
        acc.append(o)
        for v in o:
            _containers(v, acc)
    return acc


def cases(seed, tier):
    out = []
    n = 60 if tier == "quick" else 600
    for i in range(n):
        out.append({"group": "extra", "kind": ["empty", "listmut"][i % 2], "seed": sub_seed(seed, "c20x", i), "unique": (i // 2) % 2 == 0,
                    "mut": ["append", "clear", "reverse", "pop"][(i // 4) % 4]})
    for i in range(n):
        out.append({"group": "extra", "kind": "origmut", "seed": sub_seed(seed, "c20om", i), "unique": i % 2 == 0, "shape": i % len(OM_SHAPES),
                    "mut": ["append", "setkey", "attr", "tensor", "clear"][(i // 2) % 5], "iface": ["list", "flat"][(i // 10) % 2]})
        out.append({"group": "extra", "kind": "flatsrc", "seed": sub_seed(seed, "c20fs", i), "unique": i % 2 == 0, "allempty": (i // 2) % 3 == 0,
                    "src_dtype": ["float64", "float32"][(i // 6) % 2], "src_grad": (i // 12) % 2 == 0, "shape": (i // 3) % len(OM_SHAPES)})
    return out


# structures for origmut / flatsrc: t = list of tensors (t[0] may occur twice); several have as many top-level entries as tensor slots
OM_SHAPES = [
    lambda t: [[t[0], t[1]], {"k": 1}],                                              # 2 entries, 2 slots
    lambda t: {"w": [t[0], t[1], t[2]], "opts": {"a": 1, "b": [1, 2]}, "scale": (1.0, 2.0)},   # 3 entries, 3 slots
    lambda t: [Holder(p=t[0], q=[t[1], "s"]), [5, {"z": None}]],                     # 2 entries, 2 slots
    lambda t: [t[0], [t[1], 3], t[0]],                                               # 3 entries, 3 slots (one tensor twice)
    lambda t: {"a": [t[0], 1, {"x": t[1]}], "b": Holder(c=t[2], d="s")},             # 2 entries, 3 slots
    lambda t: [t[0], t[1], t[2]],                                                    # really flat
    lambda t: Holder(u=[t[0], [t[1], [t[2], 7]]], v={"m": {"n": [1]}}),
    lambda t: {"x": {"y": {"z": [t[0], t[0], t[1]]}}, "l": [[], [[]]], "w": t[2]},   # 3 entries, 4 slots
]


def _sig(o, tid):
    """nested signature of a structure; tensors are replaced by the index that `tid` (id -> index) gives them"""
    if isinstance(o, torch.Tensor):
        return ("T", tid.get(id(o), "foreign"))
    if isinstance(o, Holder):
        return ("O", _sig(o.__dict__, tid))
    if isinstance(o, dict):
        return ("D", [(k, _sig(v, tid)) for k, v in o.items()])
    if isinstance(o, list):
        return ("L", [_sig(v, tid) for v in o])
    return ("leaf", type(o).__name__, repr(o))


def _slots(o, acc=None):
    acc = [] if acc is None else acc
    if isinstance(o, torch.Tensor):
        acc.append(o)
    elif isinstance(o, Holder):
        _slots(o.__dict__, acc)
    elif isinstance(o, dict):
        for v in o.values():
            _slots(v, acc)
    elif isinstance(o, list):
        for v in o:
            _slots(v, acc)
    return acc


def _nested_containers(o):
    top = o
    return [c for c in _containers(o) if c is not top and not (isinstance(top, Holder) and c is top.__dict__)]


def run_origmut(desc, obs, rng, tg, uq, mech):
    from xitorch._core.packer import Packer
    t = [torch.randn(sh, generator=tg, dtype=DT) for sh in ((2,), (3,), (), (1, 2))]
    obj = OM_SHAPES[desc["shape"]](t)
    slots0 = _slots(obj)
    uniq0 = []
    for x in slots0:
        if not any(x is y for y in uniq0):
            uniq0.append(x)
    want_list = uniq0 if uq else slots0
    tid = {id(x): i for i, x in enumerate(want_list)}
    if not uq:                                   # per-slot indices: the k-th slot holds supplied tensor k
        sig0 = None
    top_n = len(obj.__dict__) if isinstance(obj, Holder) else len(obj)
    if top_n == len(slots0):
        obs.count("extra_origmut_looks_flat")
    mut = desc["mut"]
    try:
        p = Packer(obj)
        if rng.random() < 0.5:
            p.get_param_tensor_list(unique=uq)
        # structure at pack time, with the tensors numbered by the position of the supplied tensor they must receive
        new = [torch.randn(x.shape, generator=tg, dtype=DT) for x in want_list]
        def expected_sig():
            if uq:
                return _sig(ref_obj, {id(x): i for i, x in enumerate(uniq0)})
            cnt = [0]
            def num(o):
                if isinstance(o, torch.Tensor):
                    cnt[0] += 1
                    return ("T", cnt[0] - 1)
                if isinstance(o, Holder):
                    return ("O", num(o.__dict__))
                if isinstance(o, dict):
                    return ("D", [(k, num(v)) for k, v in o.items()])
                if isinstance(o, list):
                    return ("L", [num(v) for v in o])
                return ("leaf", type(o).__name__, repr(o))
            return num(ref_obj)
        ref_obj = OM_SHAPES[desc["shape"]](t)    # an untouched twin built from the same tensors
        want_sig = expected_sig()
        # ---- the caller now modifies ITS object (nested content only - and, for "clear", also the top level)
        nested = _nested_containers(obj)
        done = 0
        for c in nested:
            if mut == "append" and isinstance(c, list):
                c.append("ADDED"); done += 1
            elif mut == "setkey" and isinstance(c, dict):
                c["ADDED"] = 1; done += 1
            elif mut == "attr" and isinstance(c, Holder):
                c.ADDED = 1; done += 1
            elif mut == "tensor" and isinstance(c, list) and any(isinstance(v, torch.Tensor) for v in c):
                j = [i for i, v in enumerate(c) if isinstance(v, torch.Tensor)][0]
                c[j] = torch.zeros(7, dtype=DT); done += 1
            elif mut == "clear" and isinstance(c, (list, dict)) and len(c):
                c.clear(); done += 1
        if mut == "clear" and isinstance(obj, (list, dict)):
            obj.clear(); done += 1
        if not done:
            for c in nested:
                if isinstance(c, list):
                    c.append("ADDED"); done += 1
                elif isinstance(c, dict):
                    c["ADDED"] = 1; done += 1
        obs.count("extra_origmut_mutations", done)
        lst = p.get_param_tensor_list(unique=uq)
        obs.check(len(lst) == len(want_list) and all(a is b for a, b in zip(lst, want_list)), "extra:origmut:listing:%s:%s" % (mut, mech),
                  "after the caller modified nested content of its object (%s) the Packer lists %d tensors (packed: %d) or other tensors" % (mut, len(lst), len(want_list)))
        if desc["iface"] == "list":
            r = p.construct_from_tensor_list(list(new), unique=uq)
            got_sig = _sig(r, {id(x): i for i, x in enumerate(new)})
        else:
            p.get_param_tensor(unique=uq)
            flat = torch.cat([x.reshape(-1) for x in new])
            r = p.construct_from_tensor(flat, unique=uq)
            # number the rebuilt tensors by value/shape match with the supplied chunks
            sl = _slots(r)
            tidr = {}
            for x in sl:
                for i, nx in enumerate(new):
                    if x.shape == nx.shape and bool((x == nx).all()):
                        tidr[id(x)] = i
                        break
            got_sig = _sig(r, tidr)
        obs.check(got_sig == want_sig, "extra:origmut:rebuild:%s:%s:%s" % (mut, desc["iface"], mech),
                  "a rebuild made after the caller modified nested content of its own object (%s) is not the structure that was packed: %r vs %r" % (mut, got_sig, want_sig))
        ids_obj = {id(c) for c in _containers(obj)}
        sh = [c for c in _containers(r) if id(c) in ids_obj]
        obs.check(not sh, "extra:origmut:shares_original:%s" % mech, "the rebuilt structure contains %d container(s) of the caller's object" % len(sh))
    except Exception as e:
        obs.exc_violation("extra:origmut:call:%s:%s:%s" % (mut, desc["iface"], mech), e)
    obs.count("extra_origmut_histories")
    obs.nontrivial = True
    return obs.result()


def run_flatsrc(desc, obs, rng, tg, uq, mech):
    from xitorch._core.packer import Packer
    if desc["allempty"]:
        shapes = [(0,), (2, 0), (0, 3), (0,)]
        obs.count("extra_flatsrc_allempty")
    else:
        shapes = [(2,), (0,), (), (1, 2)] if rng.random() < 0.5 else [(2,), (3,), (), (1, 2)]
    t = [torch.randn(sh, generator=tg, dtype=DT) for sh in shapes]
    obj = OM_SHAPES[desc["shape"]](t)
    slots0 = _slots(obj)
    uniq0 = []
    for x in slots0:
        if not any(x is y for y in uniq0):
            uniq0.append(x)
    want_list = uniq0 if uq else slots0
    sdt = getattr(torch, desc["src_dtype"])
    tot = sum(x.numel() for x in want_list)
    leaf = torch.randn(tot, generator=tg, dtype=torch.float64).to(sdt)
    if desc["src_grad"]:
        leaf.requires_grad_()
        a = leaf * 2.0
    else:
        a = leaf
    tag = "%s:%s:%s" % ("allempty" if desc["allempty"] else "mixed", desc["src_dtype"], "graph" if desc["src_grad"] else "plain")
    try:
        p = Packer(obj)
        p.get_param_tensor(unique=uq)
        r = p.construct_from_tensor(a, unique=uq)
        got = _slots(r)
        obs.check(len(got) == len(slots0), "extra:flatsrc:slot_count:%s:%s" % (tag, mech), "%d tensor slots after the rebuild, %d packed" % (len(got), len(slots0)))
        if len(got) == len(slots0):
            off, chunks = 0, []
            for x in want_list:
                chunks.append((off, x.numel(), x.shape))
                off += x.numel()
            for i, g in enumerate(got):
                j = [k for k, y in enumerate(uniq0) if y is slots0[i]][0] if uq else i
                o_, n_, shp = chunks[j]
                ok = (g.shape == shp and g.dtype == a.dtype and g.requires_grad == a.requires_grad
                      and not any(g is y for y in slots0) and bool((g.detach().reshape(-1) == a.detach()[o_:o_ + n_]).all()))
                obs.check(ok, "extra:flatsrc:slot_content:%s:%s" % (tag, mech),
                          "slot %d is not chunk %d of the supplied tensor: shape %s (want %s), dtype %s (supplied %s), requires_grad %s (supplied %s), is a packed tensor: %s"
                          % (i, j, tuple(g.shape), tuple(shp), g.dtype, a.dtype, g.requires_grad, a.requires_grad, any(g is y for y in slots0)))
            if uq:
                for i, g in enumerate(got):
                    k0 = [k for k in range(len(slots0)) if slots0[k] is slots0[i]][0]
                    obs.check(g is got[k0], "extra:flatsrc:alias_lost:%s" % mech, "aliased slots %d and %d are different objects after the rebuild" % (i, k0))
        obs.check(all(a_ is b_ for a_, b_ in zip(_slots(obj), slots0)), "extra:flatsrc:input_modified:%s" % mech, "the caller's structure holds other tensors")
    except Exception as e:
        obs.exc_violation("extra:flatsrc:call:%s:%s" % (tag, mech), e)
    obs.count("extra_flatsrc_histories")
    obs.nontrivial = True
    return obs.result()


def run_case(desc):
    from xitorch._core.packer import Packer
    obs = Obs(desc)
    rng = random.Random(desc["seed"])
    tg = torch.Generator().manual_seed(desc["seed"])
    uq = bool(desc["unique"])
    mech = "%s:%s" % (desc["kind"], "unique" if uq else "all")
    if desc["kind"] == "origmut":
        return run_origmut(desc, obs, rng, tg, uq, "unique" if uq else "all")
    if desc["kind"] == "flatsrc":
        return run_flatsrc(desc, obs, rng, tg, uq, "unique" if uq else "all")
    if desc["kind"] == "empty":
        obj = _empty_struct(rng)
        if not isinstance(obj, (list, dict, Holder)):
            obj = [obj]
        orig = copy.deepcopy(obj)
        try:
            p = Packer(obj)
            lst = p.get_param_tensor_list(unique=uq)
            obs.check(list(lst) == [], "extra:empty:listing:" + mech, "a structure without tensors lists %d tensors" % len(lst))
            r1 = p.construct_from_tensor_list([], unique=uq)
            r2 = p.construct_from_tensor_list([], unique=uq)
            flat = p.get_param_tensor(unique=uq)
            obs.check(flat is None or flat.numel() == 0, "extra:empty:flat:" + mech, "get_param_tensor of a structure without tensors returned %s" % (flat,))
            r3 = p.construct_from_tensor(torch.zeros(0, dtype=DT) if flat is None else flat, unique=uq)
        except Exception as e:
            obs.exc_violation("extra:empty:call:" + mech, e)
            obs.nontrivial = True
            return obs.result()
        for nm, r in (("list", r1), ("list_again", r2), ("flat", r3)):
            obs.check(_same(r, orig), "extra:empty:structure:%s:%s" % (nm, mech), "the rebuilt structure differs from the original")
        ids_obj = {id(c) for c in _containers(obj)}
        for nm, r, others in (("list", r1, (r2, r3)), ("list_again", r2, (r3,))):
            shared_orig = [c for c in _containers(r) if id(c) in ids_obj]
            obs.check(not shared_orig, "extra:empty:shares_original:%s:%s" % (nm, mech), "the rebuilt structure contains %d container(s) of the original object" % len(shared_orig))
            for o in others:
                ids_o = {id(c) for c in _containers(o)}
                sh = [c for c in _containers(r) if id(c) in ids_o]
                obs.check(not sh, "extra:empty:rebuilds_share_containers:" + mech, "two rebuilds share %d container object(s)" % len(sh))
        # modify a result: later rebuilds and the original stay as they were
        cs = _containers(r1)
        if cs:
            c0 = cs[0]
            if isinstance(c0, list):
                c0.append("MUTATED")
            elif isinstance(c0, dict):
                c0["MUTATED"] = 1
            else:
                c0.MUTATED = 1
            try:
                r4 = p.construct_from_tensor_list([], unique=uq)
                obs.check(_same(r4, orig), "extra:empty:later_rebuild_sees_mutation:" + mech, "a rebuild made after the caller modified an earlier result differs from the original")
            except Exception as e:
                obs.exc_violation("extra:empty:call:" + mech, e)
            obs.check(_same(obj, orig), "extra:empty:original_modified:" + mech, "the original object changed")
        for bad, what in (([torch.ones(2, dtype=DT)], "a one-element list"),):
            try:
                p.construct_from_tensor_list(bad, unique=uq)
                obs.violation("extra:empty:wrong_length_accepted:list:" + mech, "%s was accepted for a structure without tensors" % what)
            except RuntimeError:
                obs.count("wrong_length_rejected")
            except Exception as e:
                obs.exc_violation("extra:empty:wrong_error:" + mech, e)
        try:
            p.construct_from_tensor(torch.ones(5, dtype=DT), unique=uq)
            obs.violation("extra:empty:wrong_length_accepted:flat:" + mech, "a tensor with 5 elements was accepted for a structure without tensors")
        except RuntimeError:
            obs.count("wrong_length_rejected")
        except Exception as e:
            obs.exc_violation("extra:empty:wrong_error:" + mech, e)
        obs.count("extra_empty_structures")
        obs.nontrivial = True
        return obs.result()
    # ---- listmut
    t = [torch.randn(2, generator=tg, dtype=DT), torch.randn(3, generator=tg, dtype=DT), torch.randn((), generator=tg, dtype=DT)]
    obj = {"a": [t[0], 1, {"x": t[1]}], "b": Holder(c=t[2], d=t[0] if rng.random() < 0.5 else "s")}
    try:
        p = Packer(obj)
        lst = p.get_param_tensor_list(unique=uq)
        want = list(lst)
        if desc["mut"] == "append":
            lst.append(torch.ones(1, dtype=DT))
        elif desc["mut"] == "clear":
            lst.clear()
        elif desc["mut"] == "reverse":
            lst.reverse()
        else:
            lst.pop()
        for uq2 in (uq, not uq):
            again = p.get_param_tensor_list(unique=uq2)
            ref = list(Packer(obj).get_param_tensor_list(unique=uq2))
            obs.check(len(again) == len(ref) and all(a is b for a, b in zip(again, ref)), "extra:listmut:listing_changed:%s:%s" % (desc["mut"], mech),
                      "after the caller modified a returned list (%s) the Packer lists %d tensors (a fresh Packer: %d)" % (desc["mut"], len(again), len(ref)))
        new = [torch.randn(x.shape, generator=tg, dtype=DT) for x in want]
        p.get_param_tensor_list(unique=uq)
        r = p.construct_from_tensor_list(new, unique=uq)
        got = Packer(r).get_param_tensor_list(unique=uq)
        obs.check(len(got) == len(new) and all(a is b for a, b in zip(got, new)), "extra:listmut:rebuild:%s:%s" % (desc["mut"], mech),
                  "a rebuild after the caller modified a returned list does not hold the supplied tensors in order")
    except Exception as e:
        obs.exc_violation("extra:listmut:call:%s:%s" % (desc["mut"], mech), e)
    obs.count("extra_listmut_histories")
    obs.nontrivial = True
    return obs.result()
