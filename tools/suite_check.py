#!/venv/bin/python
"""Run the repository's own suite (guard off) in a given tree and compare with BASELINE.json stable_pass.
usage: suite_check.py [repo_dir] [pytest -k expr]"""
import json, os, subprocess, sys, tempfile, xml.etree.ElementTree as ET
repo = sys.argv[1] if len(sys.argv) > 1 else "/repo"
kexpr = sys.argv[2] if len(sys.argv) > 2 else None
base = json.load(open("/root/.vp/BASELINE.json"))
xmlp = tempfile.mktemp(suffix=".xml")
cmd = ["/venv/bin/python", "-m", "pytest", "-q", "-p", "no:cacheprovider", "--timeout=900", "--continue-on-collection-errors",
       "--junitxml=" + xmlp, "-x" if False else "-q"]
if kexpr:
    cmd += ["-k", kexpr]
env = dict(os.environ, OMP_NUM_THREADS="1")
env.pop("XITORCH_VERIF", None)
p = subprocess.run(cmd, cwd=repo, env=env, stdout=subprocess.PIPE, stderr=subprocess.STDOUT)
passed = set()
seen = set()
for tc in ET.parse(xmlp).getroot().iter("testcase"):
    name = "%s::%s" % (tc.get("classname"), tc.get("name"))
    seen.add(name)
    if not any(ch.tag in ("failure", "error", "skipped") for ch in tc):
        passed.add(name)
os.unlink(xmlp)
stable = set(base["stable_pass"])
lost = sorted((stable & seen) - passed) if kexpr else sorted(stable - passed)
print("ran=%d passed=%d stable_pass=%d lost=%d newly_passing=%d" % (len(seen), len(passed), len(stable), len(lost), len(passed - stable)))
for n in lost:
    print("LOST", n)
for n in sorted(passed - stable):
    print("NEW ", n)
sys.exit(1 if lost else 0)
