#!/usr/bin/env python3
"""Byte-exact single replacement in a CRLF source file: repl.py <file> <old-file> <new-file> (snippets given with LF)."""
import sys
path, oldp, newp = sys.argv[1:4]
data = open(path, "rb").read()
crlf = b"\r\n" in data
old = open(oldp, "rb").read()
new = open(newp, "rb").read()
if crlf:
    old = old.replace(b"\r\n", b"\n").replace(b"\n", b"\r\n")
    new = new.replace(b"\r\n", b"\n").replace(b"\n", b"\r\n")
n = data.count(old)
if n != 1:
    sys.exit("old snippet occurs %d times in %s" % (n, path))
open(path, "wb").write(data.replace(old, new))
print("replaced in", path, "(CRLF)" if crlf else "(LF)")
