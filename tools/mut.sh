#!/bin/bash
# tools/mut.sh <checkID> <file-relative-to-repo> <old-snippet> <new-snippet> [extra check args]
# one-off mutation test in a scratch worktree (never touches /repo): byte-exact replacement (LF snippets, CRLF-aware)
ID="$1"; F="$2"; OLD="$3"; NEW="$4"; shift 4
WT=/tmp/wt/mut_$$
git -C /repo worktree add -q --detach "$WT" HEAD || exit 3
trap 'git -C /repo worktree remove --force "$WT" >/dev/null 2>&1' EXIT
printf '%s' "$OLD" > /tmp/mut_old_$$; printf '%s' "$NEW" > /tmp/mut_new_$$
/venv/bin/python "$(dirname "$0")/repl.py" "$WT/$F" /tmp/mut_old_$$ /tmp/mut_new_$$ || { rm -f /tmp/mut_old_$$ /tmp/mut_new_$$; exit 4; }
rm -f /tmp/mut_old_$$ /tmp/mut_new_$$
cd "$(dirname "$0")/.." && VERIF_REPO="$WT" ./check "$ID" quick --no-evidence "$@" | grep -E "^(property=|VIOLATION|   mechanism|INCONCLUSIVE|HELD|KNOWN)" | cut -c1-260 | head -8
echo "check exit=${PIPESTATUS[0]}"
