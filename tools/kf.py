#!/usr/bin/env python3
"""Append an entry to known_findings.json (used while developing; never called by checks).
usage: kf.py <property> <fixed|open> <id> <commit-or-mechpattern[,pattern...]> <what>"""
import json, os, sys
H = os.path.dirname(os.path.dirname(os.path.abspath(__file__)))
p = os.path.join(H, "known_findings.json")
d = json.load(open(p))
prop, status, fid, arg, what = sys.argv[1:6]
d["findings"] = [e for e in d["findings"] if e["id"] != fid]
e = {"id": fid, "property": prop, "status": status, "what": what}
if status == "fixed":
    e["commit"] = arg
    e["line"] = "fixed: property=%s %s %s" % (prop, arg, what)
else:
    e["mech"] = arg.split(",")
d["findings"].append(e)
json.dump(d, open(p, "w"), indent=1)
print("known_findings.json:", len(d["findings"]), "entries")
