#!/usr/bin/env python3
"""Regenerates MANIFEST.json from the table below (keeps it schema-valid while checks are added)."""
import json
import os

H = os.path.dirname(os.path.dirname(os.path.abspath(__file__)))

def load_checks():
    """each vf/props/cXX.py declares TECHNIQUE, LEVEL_TEXT, LEVEL_NOTE (parsed textually: no torch import needed)"""
    import ast, glob
    out = {}
    for path in sorted(glob.glob(os.path.join(H, "vf", "props", "c[0-9][0-9].py"))):
        pid = os.path.basename(path)[:-3].upper()
        tree = ast.parse(open(path).read())
        vals = {}
        for node in tree.body:
            if isinstance(node, ast.Assign) and len(node.targets) == 1 and isinstance(node.targets[0], ast.Name):
                if node.targets[0].id in ("TECHNIQUE", "LEVEL_TEXT", "LEVEL_NOTE", "LEVEL", "REGISTERED"):
                    vals[node.targets[0].id] = ast.literal_eval(node.value)
        registered = [l.strip() for l in open(os.path.join(H, "tools", "registered.txt")) if l.strip()]
        if pid in registered and "TECHNIQUE" in vals:
            out[pid] = (vals["TECHNIQUE"], vals["LEVEL_TEXT"], vals["LEVEL_NOTE"], "4/" + pid, vals.get("LEVEL", "exploration"))
    return out


CHECKS = load_checks()

NOT_YET = "check not built yet in this revision of /verif (work in progress; the property is decidable by runtime monitoring, see DESIGN.md section 4)"


def main():
    ids = [json.loads(l)["id"] for l in open(os.path.join(H, "properties.jsonl"))]
    checks = []
    for pid in ids:
        if pid not in CHECKS:
            continue
        tech, text, note, ref, level = CHECKS[pid]
        checks.append({
            "property_id": pid,
            "quick_cmd": "./check %s quick" % pid,
            "thorough_cmd": "./check %s thorough" % pid,
            "evidence_file": "/verif/evidence/%s.json" % pid,
            "replay_cmd_template": "./check %s --replay {path}" % pid,
            "engine": "vf",
            "level_claimed": {"category": level, "text": text, "design_ref": "DESIGN.md section " + ref},
            "level_note": note,
            "technique": tech,
        })
    man = {
        "version": 1,
        "setup_cmd": "./setup.sh",
        "hooks": {
            "guard": "XITORCH_VERIF",
            "enable": "no source hooks are needed: all monitors attach from outside (public API, user callbacks, wrappers installed "
                      "on class attributes at run time); XITORCH_VERIF is reserved and currently unused",
            "baseline_off_cmd": "cd /repo && OMP_NUM_THREADS=1 /venv/bin/python -m pytest -q -p no:cacheprovider --timeout=900 xitorch/_tests",
            "source_commits": [],
            "add_only": True,
        },
        "engines": [{"name": "vf", "path": "vf/", "serves_properties": [c["property_id"] for c in checks],
                     "kind_free_text": "runtime monitoring: generated hostile workloads on the real code in fresh interpreters, "
                                       "reference-model monitors, call-history spies, crash-point injection, object census"}],
        "checks": checks,
        "not_applicable": [{"property_id": pid, "reason": NOT_YET} for pid in ids if pid not in CHECKS],
        "notes": "Every check = ./check <ID> <tier>; exit 0 held / 1 VIOLATION / 2 INCONCLUSIVE. VERIF_SEED selects the workload seed. "
                 "Known findings: known_findings.json (read-only at run time).",
    }
    with open(os.path.join(H, "MANIFEST.json"), "w") as f:
        json.dump(man, f, indent=1)
    print("MANIFEST.json: %d checks, %d not claimed" % (len(checks), len(man["not_applicable"])))


if __name__ == "__main__":
    main()
