#!/bin/bash
# tools/seed_regress.sh [tier] [names...]: run every kept seeded change (seeded/<name>/) through seedtest.sh against the check of its property;
# one summary line per change: name, demo exits, check exit (1 = caught).  Output also in /tmp/seed_regress_<tier>.txt (scratch only).
TIER="${1:-quick}"; shift
H="$(cd "$(dirname "$0")/.." && pwd)"
NAMES="$@"; [ -z "$NAMES" ] && NAMES=$(ls "$H/seeded")
for n in $NAMES; do
  d="$H/seeded/$n"; [ -f "$d/patch.diff" ] || continue
  id=$(/venv/bin/python -c "import json,sys;print(json.load(open('$d/meta.json'))['property'])")
  out=$("$H/tools/seedtest.sh" "$d" "$id" "$TIER" 2>&1)
  dw=$(echo "$out" | grep -o "demo-with-patch exit=[0-9]*" | cut -d= -f2)
  dh=$(echo "$out" | grep -o "demo-on-repo-head exit=[0-9]*" | cut -d= -f2)
  ce=$(echo "$out" | grep -o "check exit=[0-9]*" | cut -d= -f2)
  na=$(echo "$out" | grep -c "PATCH-DOES-NOT-APPLY")
  mech=$(echo "$out" | grep -m1 "mechanism" | cut -c1-120)
  echo "$n prop=$id tier=$TIER apply=$((1-na)) demo_patched=$dw demo_head=$dh check_exit=$ce $mech"
done | tee /tmp/seed_regress_$TIER.txt
