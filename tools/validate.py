#!/opt/veriftools/pyvenv/bin/python
"""Validate MANIFEST.json and evidence/*.json against the given schemas (run with python3-vt)."""
import glob, json, os, sys
import jsonschema
H = os.path.dirname(os.path.dirname(os.path.abspath(__file__)))
ok = True
def val(path, schema):
    global ok
    try:
        jsonschema.validate(json.load(open(path)), json.load(open(schema)))
        print("valid  ", os.path.relpath(path, H))
    except Exception as e:
        ok = False
        print("INVALID", os.path.relpath(path, H), str(e)[:300])
val(os.path.join(H, "MANIFEST.json"), "/root/.vp/MANIFEST.schema.json")
for p in sorted(glob.glob(os.path.join(H, "evidence", "C*.json"))):
    val(p, "/root/.vp/EVIDENCE.schema.json")
m = json.load(open(os.path.join(H, "MANIFEST.json")))
ids = [json.loads(l)["id"] for l in open(os.path.join(H, "properties.jsonl"))]
claimed = [c["property_id"] for c in m["checks"]]
na = [c["property_id"] for c in m.get("not_applicable", [])]
for i in ids:
    if (i in claimed) == (i in na):
        ok = False
        print("property", i, "must be in exactly one of checks / not_applicable")
sys.exit(0 if ok else 1)
