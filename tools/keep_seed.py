#!/usr/bin/env python3
"""keep_seed.py <srcdir> <name> <property> <caught-by ...> -- --needs "<text>" --ran "<text>" --result "<text>" """
import json, os, shutil, sys, argparse
H = os.path.dirname(os.path.dirname(os.path.abspath(__file__)))
ap = argparse.ArgumentParser()
ap.add_argument("src"); ap.add_argument("name"); ap.add_argument("prop")
ap.add_argument("--needs", required=True); ap.add_argument("--ran", required=True); ap.add_argument("--result", required=True)
ap.add_argument("--origin", default="independent sub-agent given only the property text and a scratch worktree")
a = ap.parse_args()
dst = os.path.join(H, "seeded", a.name)
os.makedirs(dst, exist_ok=True)
for f in ("patch.diff", "demo.py", "notes.md"):
    if os.path.exists(os.path.join(a.src, f)):
        shutil.copy(os.path.join(a.src, f), os.path.join(dst, f))
json.dump({"property": a.prop, "breaks": a.prop, "needs_to_manifest": a.needs, "what_was_run": a.ran, "result": a.result,
           "origin": a.origin}, open(os.path.join(dst, "meta.json"), "w"), indent=1)
print("kept", dst)
