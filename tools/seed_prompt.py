#!/venv/bin/python
"""seed_prompt.py <ID> <round> -> writes /tmp/seed/prompt_<ID>_r<round>.md: the seeding brief (property text only) plus one-line
descriptions of the changes earlier testers already produced for that property (so that new ones differ). Nothing about the checks."""
import glob, json, os, sys
pid, rnd = sys.argv[1], sys.argv[2]
tpl = open("/tmp/seed/PROMPT_TEMPLATE.md").read() if os.path.exists("/tmp/seed/PROMPT_TEMPLATE.md") else open(os.path.join(os.path.dirname(__file__), "SEED_PROMPT_TEMPLATE.md")).read()
d = [json.loads(l) for l in open("/verif/properties.jsonl") if json.loads(l)["id"] == pid][0]
wt = "/tmp/wt/seed-%s-r%s" % (pid.lower(), rnd)
t = (tpl.replace("{ID}", pid).replace("{TITLE}", d["title"]).replace("{STATEMENT}", d["statement"]).replace("{QUANT}", d["quantifier"]["text"])
     .replace("{FILES}", ", ".join(d["anchors"]["files"])).replace("{WT}", wt))
t = t.replace("/tmp/seed/%s-X/" % pid, "/tmp/seed/%s-r%s-X/" % (pid, rnd))
prev = []
for m in sorted(glob.glob("/verif/seeded/%s-*/meta.json" % pid)):
    notes = os.path.join(os.path.dirname(m), "notes.md")
    first = ""
    if os.path.exists(notes):
        for line in open(notes):
            if line.strip().startswith("#"):
                first = line.strip("# \n")
                break
    prev.append("- %s (manifests with: %s)" % (first or os.path.basename(os.path.dirname(m)), json.load(open(m))["needs_to_manifest"]))
if prev:
    t += ("\nEarlier testers already delivered the changes below for this property. Yours must differ from all of them in mechanism AND in the code "
          "region touched, and should probe a different clause of the statement or a different corner of the quantifier:\n" + "\n".join(prev) + "\n")
out = "/tmp/seed/prompt_%s_r%s.md" % (pid, rnd)
open(out, "w").write(t)
print(out)
