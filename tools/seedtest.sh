#!/bin/bash
# tools/seedtest.sh <patchdir> <checkID> [tier] [extra check args]: apply a seeded patch to a scratch worktree at /repo's HEAD,
# run its demo and one of our checks against that tree (VERIF_REPO), then clean up.  Never touches /repo's working tree.
PD="$1"; ID="$2"; TIER="${3:-quick}"; shift 3
WT=/tmp/wt/seedtest_$$
git -C /repo worktree add -q --detach "$WT" HEAD || exit 3
cleanup() { git -C /repo worktree remove --force "$WT" >/dev/null 2>&1; }
trap cleanup EXIT
if ! git -C "$WT" apply "$PD/patch.diff" 2>/dev/null; then
  if ! git -C "$WT" apply --3way "$PD/patch.diff" >/dev/null 2>&1; then echo "PATCH-DOES-NOT-APPLY $PD"; exit 4; fi
fi
if [ -f "$PD/demo.py" ]; then
  (cd "$WT" && OMP_NUM_THREADS=1 PYTHONPATH="$WT" timeout 600 /venv/bin/python -B "$PD/demo.py" >/dev/null 2>&1); echo "demo-with-patch exit=$?"
  (cd /repo && OMP_NUM_THREADS=1 PYTHONPATH=/repo timeout 600 /venv/bin/python -B "$PD/demo.py" >/dev/null 2>&1); echo "demo-on-repo-head exit=$?"
fi
cd "$(dirname "$0")/.." && VERIF_REPO="$WT" ./check "$ID" "$TIER" --no-evidence "$@" | grep -E "^(property=|VIOLATION|   mechanism|INCONCLUSIVE|HELD|KNOWN)" | cut -c1-330 | head -12
echo "check exit=${PIPESTATUS[0]}"
